// C12, concurrent engine: parse streams that belong to different threads share nothing.
//
// Every simulated thread (a fiber under the seeded scheduler of seams/fiber_sched.cpp) parses its
// own texts through its own std::basic_istringstream and its own parse::detail::stream. What one
// thread does must not change what another one gets: characters, positions, results and - the
// part of C12 that mentions text - the line:column in the error messages of the character-level
// parsers. The oracle is differential: every job is first executed alone on the main context;
// executed again inside its fiber, interleaved with the other fibers' jobs, it must give the
// same summary (result or complete error message). ThreadSanitizer (fiber API, no-sync switches)
// watches every plain access: hidden shared state in the library (a static cache, a shared
// scratch buffer) is a data race between fibers whatever the interleaving.
#include "c12_common.hpp"
#include <cstdlib>
#include <functional>
#include "core/main.hpp"
#include "seams/fiber_sched.hpp"

namespace prop
{
char const *const id = "C12-conc";
}

namespace
{
constexpr unsigned MAX_FIBERS = 4;

struct Job
{
  unsigned fiber = 0;
  bool wide = false;
  unsigned grammar = 0, skipper = 0;
  std::size_t start = 0; // characters read singly (with their positions saved) before the grammar
  std::string text;      // encoded as in the sequential engine
  std::string reference, got;
};

template <typename Ch>
std::string run_job(Job const &j)
{
  using stream_t = fcppt::parse::detail::stream<Ch>;
  std::string const dec = decode_text(j.text);
  std::basic_string<Ch> text;
  for (char c : dec)
    text.push_back(static_cast<Ch>(static_cast<unsigned char>(c)));
  std::basic_istringstream<Ch> is(text);
  stream_t stream{fcppt::reference_to_base<std::basic_istream<Ch>>(fcppt::make_ref(is))};
  std::string out;
  try
  {
    // a few single reads with a save and a restore in between, then the grammar
    std::size_t const n = std::min(j.start, text.size());
    auto const saved = stream.get_position();
    for (std::size_t k = 0; k < n; ++k)
    {
      auto const c = stream.get_char();
      out += c.has_value() ? std::to_string(static_cast<unsigned long>(c.get_unsafe())) + "," : "-,";
    }
    if (n % 2 == 1)
    {
      stream.set_position(saved);
      out += "R,";
    }
    auto const p = stream.get_position();
    out += "@" + std::to_string(std::streamoff(p.pos()));
    if (p.location().has_value())
      out += ":" + std::to_string(p.location().get_unsafe().line().get()) + ":" + std::to_string(p.location().get_unsafe().column().get());
    out += " " + Grammars<Ch>::run(j.grammar, j.skipper, stream);
  }
  catch (fcppt::parse::detail::exception<Ch> const &)
  {
    out += " EXC";
  }
  return out;
}

std::string run_any(Job const &j) { return j.wide ? run_job<wchar_t>(j) : run_job<char>(j); }

struct World
{
  sim::Ctx &ctx;
  explicit World(sim::Ctx &c) : ctx(c) {}
  std::vector<Job> jobs;

  void run(sim::Plan const &plan)
  {
    unsigned const nf = static_cast<unsigned>(std::min<std::uint64_t>(MAX_FIBERS, std::max<std::uint64_t>(2, plan.cfg.getu("fibers", 2))));
    for (sim::Op const &op : plan.ops)
    {
      if (op.name != "parse")
        sim::violate("harness", "unknown op " + op.name);
      Job j;
      j.fiber = static_cast<unsigned>(op.getu("t") % nf);
      j.wide = op.getu("w") % 2 == 1;
      j.grammar = static_cast<unsigned>(op.getu("g") % 9);
      j.skipper = static_cast<unsigned>(op.getu("sk") % 2);
      j.start = op.getu("pre") % 6;
      j.text = op.gets("text", "_");
      jobs.push_back(j);
    }
    // each job alone (also initialises whatever is initialised lazily, before any fiber runs)
    for (Job &j : jobs)
      j.reference = run_any(j);
    sim::sched::clear_history();
    std::vector<std::function<void()>> bodies;
    for (unsigned t = 0; t < nf; ++t)
      bodies.emplace_back([this, t] {
        unsigned k = 0;
        for (Job &j : jobs)
          if (j.fiber == t)
          {
            (void)sim::sched::record(t, k, false, 0);
            j.got = run_any(j);
            (void)sim::sched::record(t, k, true, 0);
            ++k;
          }
      });
    sim::sched::Config cfg;
    cfg.seed = plan.cfg.getu("ss", 1);
    cfg.pct_depth = static_cast<unsigned>(plan.cfg.getu("depth", 2));
    cfg.preempt_percent = static_cast<unsigned>(plan.cfg.getu("pre", 30));
    switch (plan.cfg.getu("policy") % 3)
    {
    case 0: cfg.policy = sim::sched::Policy::random; break;
    case 1: cfg.policy = sim::sched::Policy::pct; break;
    default: cfg.policy = sim::sched::Policy::sticky; break;
    }
    if (!plan.sched.empty())
    {
      cfg.policy = sim::sched::Policy::replay;
      cfg.choices = plan.sched;
    }
    sim::sched::Result const res = sim::sched::run(bodies, cfg);
    ctx.sched_out = res.choices;
    ctx.steps += res.steps;
    ctx.interleaving = res.interleaving_hash;
    if (res.table_overflow)
      sim::detail::fatal_violation("harness", "the scheduler's lock table overflowed: " + res.detail);
    if (res.deadlock || res.step_bound)
      sim::detail::fatal_violation(res.deadlock ? "deadlock" : "step-bound", res.detail);
    if (res.locks_held_at_end != 0)
      sim::detail::fatal_violation("lock-not-released", std::to_string(res.locks_held_at_end) + " mutex(es) still locked after every thread had finished");
    ctx.probe("context_switches", res.switches);
    for (std::string const &e : res.fiber_errors)
      if (!e.empty())
        sim::violate("fiber-exception", e);
    ctx.ev("interleaving " + std::to_string(res.interleaving_hash) + " steps " + std::to_string(res.steps));
    for (Job const &j : jobs)
    {
      ctx.ev("job t=" + std::to_string(j.fiber) + " -> " + j.got.substr(0, 60));
      if (j.got != j.reference)
        sim::violate("concurrent-result", "thread " + std::to_string(j.fiber) + " parsing its own stream (text '" + j.text + "', grammar " + std::to_string(j.grammar) + ") got '" + j.got + "' while other threads were parsing theirs; alone it gets '" + j.reference + "'");
      ctx.probe(j.got.find(" S:") != std::string::npos ? "grammar_success" : "grammar_failure");
    }
    if (res.tsan_reports != 0)
      sim::violate(std::string("tsan:") + sim::sched::tsan_first_report_kind(), std::to_string(res.tsan_reports) + " ThreadSanitizer report(s) while threads were parsing independent streams (see the report text in the replay output)");
    ctx.nontrivial = jobs.size() >= 2;
  }
};

std::string random_text(sim::Rng &rng)
{
  unsigned const len = static_cast<unsigned>(rng.below(14));
  std::string text;
  for (unsigned k = 0; k < len; ++k)
  {
    unsigned const r = static_cast<unsigned>(rng.below(9));
    text.push_back(r < 4 ? 'a' : r < 5 ? 'S' : r < 6 ? 'T' : 'N');
  }
  return text.empty() ? "_" : text;
}
}

namespace prop
{
void warmup()
{
  // one sequential pass over every grammar and both character types
  sim::Plan p;
  p.property = prop::id;
  p.cfg.set("fibers", 2).set("policy", 0).set("ss", 1);
  for (unsigned g = 0; g < 9; ++g)
    p.ops.push_back(sim::Op("parse").set("t", static_cast<long>(g % 2)).set("w", static_cast<long>(g % 2)).set("g", static_cast<long>(g)).set("sk", static_cast<long>(g % 2)).set("pre", static_cast<long>(g % 3)).sets("text", "aNaSa"));
  sim::detail::announce_warmup(p);
  sim::Ctx ctx;
  try
  {
    World w(ctx);
    w.run(p);
  }
  catch (...)
  {
  }
}

void generate(sim::Rng &rng, sim::Plan &p, bool)
{
  unsigned const nf = static_cast<unsigned>(rng.range(2, MAX_FIBERS));
  p.cfg.set("fibers", nf);
  p.cfg.set("policy", static_cast<long>(rng.below(3)));
  p.cfg.set("ss", static_cast<long>(rng.below(1000000000)));
  p.cfg.set("depth", static_cast<long>(rng.range(1, 4)));
  p.cfg.set("pre", static_cast<long>(rng.range(5, 60)));
  for (unsigned t = 0; t < nf; ++t)
  {
    unsigned const n = static_cast<unsigned>(rng.range(1, 4));
    for (unsigned k = 0; k < n; ++k)
      p.ops.push_back(sim::Op("parse").set("t", static_cast<long>(t)).set("w", static_cast<long>(rng.below(2))).set("g", static_cast<long>(rng.below(9))).set("sk", static_cast<long>(rng.below(2))).set("pre", static_cast<long>(rng.below(6))).sets("text", random_text(rng)));
  }
}

void execute(sim::Plan const &p, sim::Ctx &ctx)
{
  World w(ctx);
  w.run(p);
}
}

int main(int argc, char **argv) { return sim::sim_main(argc, argv); }
