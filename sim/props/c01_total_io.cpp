// C01 (fault-facing subset): the safe API is total also when streams, reader callbacks, the
//      codecvt facet, the file system and the allocator fail: a call returns, or reports failure
//      only through its documented channel; it never crashes, hangs or throws anything else.
#include <fcppt/exception.hpp>
#include <fcppt/make_ref.hpp>
#include <fcppt/narrow_locale.hpp>
#include <fcppt/widen_locale.hpp>
#include <fcppt/from_std_wstring_locale.hpp>
#include <fcppt/to_std_wstring_locale.hpp>
#include <fcppt/container/buffer/object.hpp>
#include <fcppt/container/buffer/read_from_opt.hpp>
#include <fcppt/either/object.hpp>
#include <fcppt/filesystem/create_directories_recursive.hpp>
#include <fcppt/filesystem/create_directory.hpp>
#include <fcppt/filesystem/directory_range.hpp>
#include <fcppt/filesystem/file_size.hpp>
#include <fcppt/filesystem/make_directory_range.hpp>
#include <fcppt/filesystem/make_recursive_directory_range.hpp>
#include <fcppt/filesystem/open.hpp>
#include <fcppt/filesystem/open_exn.hpp>
#include <fcppt/filesystem/recursive_directory_range.hpp>
#include <fcppt/io/expect.hpp>
#include <fcppt/io/extract.hpp>
#include <fcppt/io/get.hpp>
#include <fcppt/io/peek.hpp>
#include <fcppt/io/read.hpp>
#include <fcppt/io/read_chars.hpp>
#include <fcppt/io/stream_to_string.hpp>
#include <fcppt/math/vector/input.hpp>
#include <fcppt/math/vector/static.hpp>
#include <fcppt/optional/object.hpp>
#include <fcppt/parse/basic_char.hpp>
#include <fcppt/parse/basic_char_set.hpp>
#include <fcppt/parse/basic_literal.hpp>
#include <fcppt/parse/int.hpp>
#include <fcppt/parse/uint.hpp>
#include <fcppt/either/to_exception.hpp>
#include <fcppt/parse/phrase_parse_stream.hpp>
#include <fcppt/parse/operators/alternative.hpp>
#include <fcppt/parse/operators/not.hpp>
#include <fcppt/parse/operators/optional.hpp>
#include <fcppt/parse/operators/repetition.hpp>
#include <fcppt/parse/operators/sequence.hpp>
#include <fcppt/parse/skipper/epsilon.hpp>
#include <cerrno>
#include <cstdlib>
#include <filesystem>
#include <fstream>
#include <istream>
#include <limits>
#include <sstream>
#include <stdexcept>
#include <string>
#include <sys/stat.h>
#include <unistd.h>
#include "core/main.hpp"
#include "seams/alloc.hpp"
#include "seams/codecvt.hpp"
#include "seams/streambuf.hpp"

namespace prop
{
char const *const id = "C01";
}

namespace sim::fs
{
extern unsigned long calls;
}

namespace
{
std::string g_dir; // scratch directory with a fixed population

void make_scratch()
{
  char const *d = std::getenv("SIM_TMP");
  g_dir = std::string(d != nullptr ? d : "/tmp") + "/c01." + std::to_string(::getpid());
  std::filesystem::create_directories(g_dir + "/dir/sub");
  {
    std::ofstream f(g_dir + "/f0");
  }
  {
    std::ofstream f(g_dir + "/f7");
    f << "1234567";
  }
  {
    std::ofstream f(g_dir + "/dir/sub/deep");
    f << "x";
  }
  std::error_code ec;
  std::filesystem::create_symlink("loop", g_dir + "/loop", ec);
  std::filesystem::create_symlink("nowhere", g_dir + "/dangling", ec);
  std::filesystem::create_symlink("f7", g_dir + "/link7", ec);
  ::atexit([] {
    std::error_code e2;
    std::filesystem::remove_all(g_dir, e2);
  });
}

// paths: index -> (path, regular file size or -1)
struct PathCase
{
  std::string path;
  long size;
};
PathCase path_case(unsigned k)
{
  switch (k % 10)
  {
  case 0: return {g_dir + "/f0", 0};
  case 1: return {g_dir + "/f7", 7};
  case 2: return {g_dir + "/missing", -1};
  case 3: return {g_dir + "/dir", -1};
  case 4: return {g_dir + "/loop", -1};
  case 5: return {g_dir + "/dangling", -1};
  case 6: return {g_dir + "/f7/below-a-file", -1};
  case 7: return {g_dir + "/" + std::string(300, 'n'), -1};
  case 8: return {g_dir + "/link7", 7};
  default: return {g_dir + "/dir/sub/deep", -1};
  }
}

struct World
{
  sim::Ctx &ctx;
  explicit World(sim::Ctx &c) : ctx(c) {}

  // Runs f as code under test. Allowed ways out: normal return; bad_alloc iff an allocation
  // failure was injected; the exceptions named in `allowed`.
  enum Allowed : unsigned
  {
    none = 0,
    runtime_error = 1,   // documented (widen_locale)
    sim_fault = 2,       // the caller's own exception (throwing callback, stream with exceptions())
    fcppt_exception = 4, // documented (open_exn)
  };
  template <typename F>
  std::string call(std::string const &n, unsigned allowed, F &&f)
  {
    long const live0 = sim::heap::live_sut();
    std::string how = "returned";
    try
    {
      sim::fault::Sut s;
      f();
    }
    catch (std::bad_alloc const &)
    {
      SIM_CHECK(sim::fault::fired(sim::fault::alloc), "undocumented-exception", n + ": bad_alloc without an injected allocation failure");
      how = "bad_alloc";
      ctx.probe("bad_alloc_propagated");
    }
    catch (sim::Fault const &e)
    {
      SIM_CHECK((allowed & sim_fault) != 0, "undocumented-exception", n + ": the injected exception escaped: " + e.what);
      how = "caller-exception";
    }
    catch (fcppt::exception const &e)
    {
      SIM_CHECK((allowed & fcppt_exception) != 0, "undocumented-exception", n + ": fcppt::exception escaped");
      how = "fcppt::exception";
    }
    catch (std::ios_base::failure const &e)
    {
      // a stream with exceptions() enabled throws this on its own when its state goes bad: that is
      // the caller's channel too
      SIM_CHECK((allowed & sim_fault) != 0, "undocumented-exception", n + ": std::ios_base::failure escaped: " + e.what());
      how = "caller-exception";
    }
    catch (std::system_error const &e)
    {
      // std::filesystem::filesystem_error and other system errors are never documented here
      sim::violate("undocumented-exception", n + ": " + typeid(e).name() + " escaped: " + e.what());
    }
    catch (std::runtime_error const &e)
    {
      // "\throw std::runtime_error": the type itself or one derived from it
      SIM_CHECK((allowed & runtime_error) != 0, "undocumented-exception", n + ": " + typeid(e).name() + " escaped: " + e.what());
      how = "runtime_error";
    }
    // everything the call allocated and did not hand to the caller is released again
    (void)live0;
    return how;
  }

  void op_stream(sim::Op const &op)
  {
    unsigned const which = static_cast<unsigned>(op.getu("f") % 15);
    sim::Rng r(op.getu("vs"));
    std::size_t const len = op.getu("len") % 48;
    std::string text;
    static char const alphabet[] = "a(1,-2 3)\n\t,9z";
    for (std::size_t k = 0; k < len; ++k)
      text.push_back(alphabet[r.below(sizeof(alphabet) - 1)]);
    if (op.get("num") != 0)
      text = "(12,-7,300) 42 red" + text;
    // integer parsers read a number that sits at or around the limits of the target type
    bool negative = false;
    unsigned __int128 magnitude = 0;
    if (which >= 12)
    {
      static unsigned long long const edges[] = {0ULL, 1ULL, 127ULL, 128ULL, 255ULL, 256ULL, 32767ULL, 32768ULL, 65535ULL, 65536ULL, 2147483647ULL, 2147483648ULL, 2147483649ULL, 4294967295ULL, 4294967296ULL, 9223372036854775807ULL, 9223372036854775808ULL, 9223372036854775809ULL, 18446744073709551615ULL};
      magnitude = edges[r.below(sizeof(edges) / sizeof(edges[0]))];
      if (r.chance(1, 4))
        magnitude = magnitude * 10 + r.below(10); // also beyond 64 bits
      if (r.chance(1, 4))
        magnitude = r.below(100000);
      negative = which == 12 && r.chance(1, 2);
      std::string digits;
      for (unsigned __int128 m = magnitude; m != 0 || digits.empty(); m /= 10)
      {
        digits.insert(digits.begin(), static_cast<char>('0' + static_cast<int>(m % 10)));
        if (m == 0)
          break;
      }
      text = (negative ? "-" : "") + digits;
    }
    sim::StreamBuf<char> sb(text, op.getu("chunk") % 9);
    if (op.has("trunc"))
      sb.visible(op.getu("trunc") % (text.size() + 1));
    if (op.get("noseek") != 0)
      sb.seekable(false);
    if (op.get("av") != 0)
      sb.avail_hint(true);
    std::istream is(&sb);
    bool const exc = op.get("exc") != 0;
    if (exc)
      is.exceptions(std::ios_base::badbit);
    unsigned const allow = exc ? sim_fault : none;
    std::string how;
    std::string const n = "stream f=" + std::to_string(which);
    std::wstring wtext(text.begin(), text.end());
    sim::StreamBuf<wchar_t> wsb(wtext, op.getu("chunk") % 9);
    std::wistream wis(&wsb);
    switch (which)
    {
    case 0:
      how = call(n, allow, [&] { (void)fcppt::io::stream_to_string(is); });
      break;
    case 1:
      how = call(n, allow, [&] { (void)fcppt::io::stream_to_string(wis); });
      break;
    case 2:
      how = call(n, allow, [&] { (void)fcppt::io::read_chars(is, op.getu("cnt") % 64); });
      break;
    case 3:
      how = call(n, allow, [&] {
        (void)fcppt::io::read<int>(is, std::endian::big);
        (void)fcppt::io::read<double>(is, std::endian::little);
        (void)fcppt::io::read<char>(is, std::endian::little);
      });
      break;
    case 4:
      how = call(n, allow, [&] {
        (void)fcppt::io::extract<int>(is);
        (void)fcppt::io::extract<std::string>(is);
        (void)fcppt::io::extract<double>(is);
      });
      break;
    case 5:
      how = call(n, allow, [&] {
        for (unsigned k = 0; k < 6; ++k)
        {
          (void)fcppt::io::peek(is);
          (void)fcppt::io::get(is);
        }
      });
      break;
    case 6:
      how = call(n, allow, [&] {
        fcppt::math::vector::static_<int, 3> v(0, 0, 0);
        is >> v;
        fcppt::io::expect(is, ' ');
      });
      break;
    case 7:
    case 8:
    case 9:
    {
      namespace P = fcppt::parse;
      using lit = P::basic_literal<char>;
      using cset = P::basic_char_set<char>;
      using chr = P::basic_char<char>;
      bool failure = false;
      how = call(n, allow, [&] {
        if (which == 7)
          failure = P::phrase_parse_stream(*(cset{'a', '(', '1'} | lit{','}), is, P::skipper::epsilon()).has_failure();
        else if (which == 8)
          failure = P::phrase_parse_stream(*(!lit{'\n'} >> chr{}) >> -lit{'\n'}, is, P::skipper::epsilon()).has_failure();
        else
          failure = P::phrase_parse_stream(-lit{'('} >> *(cset{'1', '2', '3'} | cset{','}), is, P::skipper::epsilon()).has_failure();
      });
      if (failure)
        ctx.probe("parse_failure_reported");
      break;
    }
    case 14:
    {
      // streams that are in a failed or unusual state before the call: a file stream whose open
      // failed or that was never opened, an input stream on an output-only string buffer, a
      // drained buffer that answers in_avail() with -1
      unsigned const variant = static_cast<unsigned>(op.getu("cnt") % 4);
      how = call(n, allow, [&] {
        if (variant == 0)
        {
          std::ifstream f(g_dir + "/missing");
          (void)fcppt::io::stream_to_string(f);
          std::wifstream wf(g_dir + "/missing");
          (void)fcppt::io::stream_to_string(wf);
        }
        else if (variant == 1)
        {
          std::ifstream f;
          (void)fcppt::io::stream_to_string(f);
          (void)fcppt::io::read_chars(f, 4);
        }
        else if (variant == 2)
        {
          std::ostringstream out;
          out << "text";
          std::istream in(out.rdbuf());
          (void)fcppt::io::stream_to_string(in);
        }
        else
        {
          sb.avail_hint(true);
          (void)fcppt::io::stream_to_string(is); // drains the buffer
          is.clear();
          (void)fcppt::io::stream_to_string(is); // in_avail() is -1 now
        }
      });
      ctx.probe("stream_in_unusual_state");
      break;
    }
    case 12:
    case 13:
    {
      // parse::int_ / parse::uint over the (possibly torn, failing) stream: success must carry the
      // exact value of the digits that exist for the reader; a number the type cannot hold is a
      // failure, never a wrapped value, and never undefined behaviour (UBSan watches)
      namespace P = fcppt::parse;
      unsigned const ty = static_cast<unsigned>(op.getu("cnt") % 3);
      fcppt::optional::object<__int128> got;
      __int128 lo = 0, hi = 0;
      auto const run = [&](auto parser, auto limits) {
        using T = decltype(limits);
        lo = std::numeric_limits<T>::min();
        hi = std::numeric_limits<T>::max();
        auto res = P::phrase_parse_stream(parser, is, P::skipper::epsilon());
        if (res.has_success())
          got = fcppt::optional::object<__int128>{static_cast<__int128>(res.get_success_unsafe())};
      };
      how = call(n, allow, [&] {
        if (which == 12)
        {
          if (ty == 0)
            run(P::int_<int>{}, int{});
          else if (ty == 1)
            run(P::int_<long long>{}, static_cast<long long>(0));
          else
            run(P::int_<long>{}, long{});
        }
        else
        {
          if (ty == 0)
            run(P::uint<unsigned>{}, unsigned{});
          else if (ty == 1)
            run(P::uint<unsigned long long>{}, static_cast<unsigned long long>(0));
          else
            run(P::uint<unsigned long>{}, static_cast<unsigned long>(0));
        }
      });
      if (got.has_value())
      {
        bool const whole = !op.has("trunc") || op.getu("trunc") % (text.size() + 1) == text.size();
        __int128 const exact = negative ? -static_cast<__int128>(magnitude) : static_cast<__int128>(magnitude);
        bool const representable = magnitude <= (static_cast<unsigned __int128>(1) << 100) && exact >= lo && exact <= hi;
        if (whole && !sb.threw())
        {
          SIM_CHECK(representable, "out-of-range-accepted", n + ": '" + text + "' does not fit the target type but the parser reported success");
          SIM_CHECK(got.get_unsafe() == exact, "parsed-value", n + ": '" + text + "' was parsed as another number");
        }
        ctx.probe("integer_parsed");
      }
      else
        ctx.probe("integer_rejected");
      break;
    }
    case 10:
      how = call(n, allow, [&] {
        // a reader over the stream that fails: read_from_opt must hand the failure on as nothing
        using Buf = fcppt::container::buffer::object<char>;
        auto res = fcppt::container::buffer::read_from_opt<Buf>(op.getu("cnt") % 64, [&is](char *d, std::size_t s) {
          return is.read(d, static_cast<std::streamsize>(s)) ? fcppt::optional::object<std::size_t>{s} : fcppt::optional::object<std::size_t>{};
        });
        (void)res;
      });
      break;
    default:
      how = call(n, allow | sim_fault, [&] {
        // a reader that throws its own exception: it may propagate, nothing else
        using Buf = fcppt::container::buffer::object<char>;
        (void)fcppt::container::buffer::read_from_opt<Buf>(op.getu("cnt") % 64, [](char *, std::size_t) -> fcppt::optional::object<std::size_t> {
          if (sim::fault::hit(sim::fault::reader))
            throw sim::Fault{"reader"};
          return fcppt::optional::object<std::size_t>{0U};
        });
      });
      break;
    }
    if (sb.threw())
      ctx.probe("stream_read_error");
    if (sb.seek_failed())
      ctx.probe("stream_seek_failed");
    // termination bound in simulator steps: refills + seeks stay linear in the input
    std::uint64_t const bound = 40 * (text.size() + 2) + 64;
    SIM_CHECK(sb.refills() + sb.seeks() + wsb.refills() <= bound, "step-bound", n + ": " + std::to_string(sb.refills()) + " refills and " + std::to_string(sb.seeks()) + " seeks for " + std::to_string(text.size()) + " characters");
    ctx.ev(n + " " + how);
  }

  void op_facet(sim::Op const &op)
  {
    sim::Rng r(op.getu("vs"));
    std::size_t const len = op.getu("len") % 30;
    std::wstring w;
    for (std::size_t k = 0; k < len; ++k)
    {
      unsigned long c = r.chance(1, 2) ? 1 + r.below(0x7F) : (r.chance(1, 2) ? 0x80 + r.below(0xF000) : 0x10000 + r.below(0x100000));
      if (c >= 0xD800 && c <= 0xDFFF)
        c = 0x20AC;
      w.push_back(static_cast<wchar_t>(c));
    }
    std::string bytes = sim::utf8_encode(w);
    if (op.get("garbage") != 0)
      for (unsigned k = 0; k < 3 && !bytes.empty(); ++k)
        bytes[r.below(bytes.size())] = static_cast<char>(r.below(256));
    if (op.has("tear") && !bytes.empty())
      bytes.resize(op.getu("tear") % (bytes.size() + 1));
    sim::codecvt_ctl().reset();
    sim::codecvt_ctl().window = op.get("window", 0);
    sim::codecvt_ctl().error_at = op.get("ferr", -1);
    sim::codecvt_ctl().stall_at = op.get("stall", -1);
    unsigned const which = static_cast<unsigned>(op.getu("f") % 4);
    std::string const n = "facet f=" + std::to_string(which);
    std::string how;
    switch (which)
    {
    case 0:
      how = call(n, none, [&] { (void)fcppt::narrow_locale(w, sim::sim_locale()); });
      break;
    case 1:
      how = call(n, runtime_error, [&] { (void)fcppt::widen_locale(bytes, sim::sim_locale()); });
      break;
    case 2:
      how = call(n, none, [&] { (void)fcppt::from_std_wstring_locale(w, sim::sim_locale()); });
      break;
    default:
      how = call(n, runtime_error, [&] { (void)fcppt::to_std_wstring_locale(bytes, sim::sim_locale()); });
      break;
    }
    long const calls = sim::codecvt_ctl().calls;
    std::size_t const in_len = which % 2 == 0 ? w.size() : bytes.size();
    // termination bound in simulator steps: conversion calls stay linear in the input
    SIM_CHECK(calls <= static_cast<long>(8 * (in_len + 2) + 16), "step-bound", n + ": " + std::to_string(calls) + " conversion calls for " + std::to_string(in_len) + " input units");
    if (sim::codecvt_ctl().error_fired)
      ctx.probe("facet_error");
    if (sim::codecvt_ctl().stalled)
      ctx.probe("facet_stall");
    if (sim::codecvt_ctl().partials != 0)
      ctx.probe("facet_partial");
    sim::codecvt_ctl().reset();
    ctx.ev(n + " len=" + std::to_string(in_len) + " calls=" + std::to_string(calls) + " " + how);
  }

  void op_fs(sim::Op const &op)
  {
    unsigned const which = static_cast<unsigned>(op.getu("f") % 7);
    // allocation failures are not injected into std::filesystem calls: libstdc++ allocates inside
    // noexcept functions there (directory_iterator's constructor), so the resulting
    // std::terminate would be libstdc++'s, not fcppt's
    sim::fault::st().target[sim::fault::alloc] = 0;
    PathCase const pc = path_case(static_cast<unsigned>(op.getu("p")));
    std::filesystem::path const path(pc.path);
    std::string const n = "fs f=" + std::to_string(which) + " p=" + std::to_string(op.getu("p") % 10);
    std::string how;
    unsigned long const calls0 = sim::fs::calls;
    switch (which)
    {
    case 0:
    {
      fcppt::filesystem::optional_size res;
      how = call(n, none, [&] { res = fcppt::filesystem::file_size(path); });
      if (how == "returned")
      {
        bool const faulted = sim::fault::fired(sim::fault::err_no);
        if (res.has_value())
        {
          // (an implementation may need several system calls; a returned size only has to be right)
          (void)faulted;
          SIM_CHECK(pc.size >= 0 && res.get_unsafe() == static_cast<std::uintmax_t>(pc.size), "file-size", n + ": " + std::to_string(res.get_unsafe()));
        }
        else
          SIM_CHECK(faulted || pc.size < 0, "spurious-nothing", n + ": nothing for an existing regular file");
      }
      break;
    }
    case 1:
    case 2:
    {
      // creates below a fresh directory name, removed afterwards
      std::filesystem::path const target = std::filesystem::path(g_dir) / ("new" + std::to_string(op.getu("p") % 3)) / (which == 2 ? "a/b" : "");
      std::filesystem::path const base = std::filesystem::path(g_dir) / ("new" + std::to_string(op.getu("p") % 3));
      how = call(n, none, [&] {
        if (which == 1)
          (void)fcppt::filesystem::create_directory(op.getu("p") % 2 == 0 ? base : path);
        else
          (void)fcppt::filesystem::create_directories_recursive(op.getu("p") % 2 == 0 ? target : path / "x/y");
      });
      std::error_code ec;
      std::filesystem::remove_all(base, ec);
      // whatever the call created below the fixture goes away again, so that no run sees another's
      for (char const *made : {"/missing", "/dir/x", "/dir/sub/deep"})
        std::filesystem::remove_all(g_dir + made, ec);
      break;
    }
    case 3:
      how = call(n, none, [&] {
        auto res = fcppt::filesystem::make_directory_range(path, std::filesystem::directory_options::none);
        (void)res;
      });
      break;
    case 4:
      how = call(n, none, [&] {
        auto res = fcppt::filesystem::make_recursive_directory_range(path, std::filesystem::directory_options::none);
        (void)res;
      });
      break;
    case 5:
      how = call(n, none, [&] {
        auto res = fcppt::filesystem::open<std::ifstream>(path, std::ios_base::in);
        (void)res;
      });
      break;
    default:
      how = call(n, fcppt_exception, [&] {
        auto res = fcppt::filesystem::open_exn<std::ifstream>(path, std::ios_base::in);
        (void)res;
      });
      break;
    }
    if (sim::fault::fired(sim::fault::err_no))
      ctx.probe("errno_injected");
    ctx.ev(n + " " + how + " syscalls=" + std::to_string(sim::fs::calls - calls0));
  }

  void run(sim::Plan const &plan)
  {
    unsigned effective = 0;
    for (sim::Op const &op : plan.ops)
    {
      sim::fault::begin_op(op);
      if (ctx.trace)
        std::printf("op %s\n", op.str().c_str());
      long const live0 = sim::heap::live_sut();
      if (op.name == "stream")
        op_stream(op);
      else if (op.name == "facet")
        op_facet(op);
      else if (op.name == "fs")
        op_fs(op);
      else
        sim::violate("harness", "unknown op " + op.name);
      SIM_CHECK(sim::heap::live_sut() == live0, "leak", op.name + ": " + std::to_string(sim::heap::live_sut() - live0) + " heap blocks allocated by the call are still live after its results were dropped");
      ++effective;
      ctx.end_op();
    }
    ctx.nontrivial = effective >= 1;
  }
};
}

namespace prop
{
void warmup()
{
  make_scratch();
  (void)sim::sim_locale();
  // warm every call kind once, so that lazily initialised statics of libstdc++ (locale facets,
  // error categories) are not attributed to a later run's leak check
  sim::Plan p;
  p.property = prop::id;
  for (unsigned f = 0; f < 15; ++f)
    p.ops.push_back(sim::Op("stream").set("f", static_cast<long>(f)).set("len", 12).set("num", 1).set("vs", 1).set("cnt", 4));
  for (unsigned f = 0; f < 4; ++f)
    p.ops.push_back(sim::Op("facet").set("f", static_cast<long>(f)).set("len", 5).set("vs", 1));
  for (unsigned f = 0; f < 7; ++f)
    for (unsigned pp = 0; pp < 10; ++pp)
      p.ops.push_back(sim::Op("fs").set("f", static_cast<long>(f)).set("p", static_cast<long>(pp)));
  sim::detail::announce_warmup(p);
  sim::Ctx ctx;
  World w(ctx);
  for (sim::Op const &op : p.ops)
  {
    sim::fault::begin_op(op);
    try
    {
      if (op.name == "stream")
        w.op_stream(op);
      else if (op.name == "facet")
        w.op_facet(op);
      else
        w.op_fs(op);
    }
    catch (...)
    {
    }
  }
  sim::fault::st().in_sut = false;
}

void generate(sim::Rng &rng, sim::Plan &p, bool)
{
  bool const faulty = rng.chance(2, 3);
  if (faulty)
    p.cfg.set("faulty", 1);
  unsigned const nops = static_cast<unsigned>(rng.range(1, 6));
  static int const errnos[] = {ENOENT, EACCES, EIO, ELOOP, ENAMETOOLONG, ENOTDIR, ENOMEM, EMFILE};
  for (unsigned k = 0; k < nops; ++k)
  {
    unsigned const kind = static_cast<unsigned>(rng.below(10));
    sim::Op op;
    long const vs = static_cast<long>(rng.below(1000000000));
    if (kind < 5)
    {
      op = sim::Op("stream").set("f", static_cast<long>(rng.below(15))).set("vs", vs).set("len", static_cast<long>(rng.below(48))).set("chunk", static_cast<long>(rng.below(9))).set("cnt", static_cast<long>(rng.below(64))).set("num", static_cast<long>(rng.below(2)));
      if (rng.chance(1, 3))
        op.set("av", 1);
      if (faulty)
      {
        unsigned const f = static_cast<unsigned>(rng.below(7));
        if (f == 0)
          op.sets("fault", "underflow:" + std::to_string(rng.range(1, 6)));
        else if (f == 1)
          op.sets("fault", "seek:" + std::to_string(rng.range(1, 4)));
        else if (f == 2)
          op.set("trunc", static_cast<long>(rng.below(48)));
        else if (f == 3)
          op.sets("fault", "alloc:" + std::to_string(rng.range(1, 6)));
        else if (f == 4)
          op.set("noseek", 1);
        else if (f == 5)
          op.sets("fault", "reader:1");
        if (rng.chance(1, 4))
          op.set("exc", 1);
      }
    }
    else if (kind < 7)
    {
      long const len = rng.chance(1, 2) ? static_cast<long>(rng.range(0, 3)) : static_cast<long>(rng.below(30));
      op = sim::Op("facet").set("f", static_cast<long>(rng.below(4))).set("vs", vs).set("len", len);
      if (faulty)
      {
        unsigned const f = static_cast<unsigned>(rng.below(7));
        if (f == 0)
          op.set("window", static_cast<long>(rng.range(1, 10)));
        else if (f == 6)
          op.set("stall", static_cast<long>(rng.below(40)));
        else if (f == 1)
          op.set("ferr", static_cast<long>(rng.below(40)));
        else if (f == 2)
          op.set("tear", static_cast<long>(rng.below(100)));
        else if (f == 3)
          op.set("garbage", 1);
        else if (f == 4)
          op.sets("fault", "alloc:" + std::to_string(rng.range(1, 4)));
      }
    }
    else
    {
      op = sim::Op("fs").set("f", static_cast<long>(rng.below(7))).set("p", static_cast<long>(rng.below(10)));
      if (faulty)
      {
        if (rng.chance(2, 3))
          op.sets("fault", "errno:" + std::to_string(rng.range(1, 3)) + ":" + std::to_string(errnos[rng.below(8)]));
      }
    }
    p.ops.push_back(op);
  }
}

void execute(sim::Plan const &p, sim::Ctx &ctx)
{
  World w(ctx);
  w.run(p);
}
}

int main(int argc, char **argv) { return sim::sim_main(argc, argv); }
