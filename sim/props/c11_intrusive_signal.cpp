// C11: intrusive list / signal membership equals the set of live connections, for every history
//      of creating, destroying and moving elements, lists, signals and connections.
#include <fcppt/function.hpp>
#include <fcppt/unique_ptr.hpp>
#include <fcppt/intrusive/base.hpp>
#include <fcppt/intrusive/list.hpp>
#include <fcppt/signal/auto_connection.hpp>
#include <fcppt/signal/base.hpp>
#include <fcppt/signal/connection.hpp>
#include <fcppt/signal/object.hpp>
#include <fcppt/signal/unregister/base.hpp>
#include <fcppt/signal/unregister/function.hpp>
#include <algorithm>
#include <memory>
#include <optional>
#include <string>
#include <vector>
#include "core/main.hpp"
#include "seams/alloc.hpp"

namespace prop
{
char const *const id = "C11";
}

namespace
{
constexpr unsigned LISTS = 3;
constexpr unsigned ELEMS = 8;
constexpr unsigned SIGS = 3;
constexpr unsigned CONNS = 8;

struct Elem;
using List = fcppt::intrusive::list<Elem>;

struct Elem : fcppt::intrusive::base<Elem>
{
  long id;
  Elem(List &l, long i) : fcppt::intrusive::base<Elem>(l), id(i) {}
  // identity stays with the object; only the list position is taken over
  Elem(Elem &&o, long i) noexcept : fcppt::intrusive::base<Elem>(std::move(o)), id(i) {}
  Elem &operator=(Elem &&o) noexcept
  {
    fcppt::intrusive::base<Elem>::operator=(std::move(o));
    return *this;
  }
};

std::string vstr(std::vector<long> const &v)
{
  std::string r = "[";
  for (std::size_t i = 0; i < v.size(); ++i)
    r += (i != 0 ? "," : "") + std::to_string(v[i]);
  return r + "]";
}

// ------------------------------------------------------------------ signals (type-erased)
using result_t = unsigned;
struct World;

// the signals' argument: passed BY VALUE and with a real move constructor, so that an argument
// moved into the first callback (instead of being copied to each) is visible to the later ones
struct Payload
{
  std::vector<unsigned> v;
  explicit Payload(unsigned x) : v(3, x) {}
  // what a callback sees: the value, or a marker if the payload was moved from before it arrived
  unsigned seen() const { return v.size() == 3 ? v[0] : 777777U; }
};

struct ISig
{
  virtual ~ISig() = default;
  virtual fcppt::signal::auto_connection connect(World &, long cid, bool with_unreg) = 0;
  // returns the fold result for value signals
  virtual std::optional<result_t> call(result_t initial, unsigned arg) = 0;
  virtual bool empty() const = 0;
  virtual std::unique_ptr<ISig> move_construct() = 0;
  virtual bool move_assign_from(ISig &) = 0;
  virtual unsigned kind() const = 0;
};

// every signal gets its own (non-commutative) combiner, so that a signal that takes over another one
// must also take over its combiner
result_t combine(unsigned k, result_t a, result_t b) { return a * (1000003U + 2U * k) + b + 7U + k; }
result_t cb_value(long cid, unsigned arg) { return static_cast<result_t>(cid) * 31U + arg * 3U + 1U; }

struct World
{
  sim::Ctx &ctx;
  explicit World(sim::Ctx &c) : ctx(c) {}
  long counter = 1;

  // ---- intrusive part
  std::unique_ptr<List> lists[LISTS];
  std::unique_ptr<Elem> elems[ELEMS];
  // model: per list the ordered ids; per element the list it is in (-1: none)
  std::vector<long> mlist[LISTS];
  int where[ELEMS] = {-1, -1, -1, -1, -1, -1, -1, -1};

  // ---- signal part
  struct Conn
  {
    std::optional<fcppt::signal::auto_connection> handle;
    long cid = 0;
    bool with_unreg = false;
    unsigned unreg_runs = 0;
    bool destroy_signal_when_empty = false;
    int sig = -1; // model: signal slot whose call reaches it (-1: orphaned / signal gone)
  };
  std::unique_ptr<ISig> sigs[SIGS];
  bool sig_moved_from[SIGS] = {false, false, false};
  unsigned sig_comb[SIGS] = {0, 0, 0}; // model: which combiner the signal in this slot folds with
  std::vector<long> msig[SIGS]; // model: connection ids in order
  std::optional<Conn> conns[CONNS];
  std::vector<long> invoked; // callback invocation log of the current call
  std::vector<unsigned> args_seen; // the argument each invoked callback received
  long dying = 0;            // cid of the connection being destroyed (for the unregister callback)
  bool unwinding_next = false; // the next destroy_conn lets the connection die during stack unwinding
  // a violation noticed inside an unregister callback: the callback runs inside a destructor that
  // turns every exception into std::terminate, so it is recorded here and raised after the operation
  std::string pending_cls, pending_detail;
  void defer(std::string const &cls, std::string const &detail)
  {
    if (pending_cls.empty())
    {
      pending_cls = cls;
      pending_detail = detail;
    }
  }
  void raise_pending()
  {
    if (!pending_cls.empty())
    {
      std::string const c = pending_cls, d = pending_detail;
      pending_cls.clear();
      sim::violate(c, d);
    }
  }
  bool abandon = false; // set when the world is torn down after a violation
  ~World() { abandon = true; }

  Conn *conn_by_cid(long cid)
  {
    for (auto &c : conns)
      if (c && c->cid == cid)
        return &*c;
    return nullptr;
  }

  // a re-entrant action: the `at`-th callback invoked by the current call does something to the
  // signals itself (the history has an event in the middle of a call)
  struct Reentry
  {
    bool armed = false;
    unsigned at = 0, kind = 0;
    std::uint64_t target = 0;
    int sig = -1;                  // the signal being called
    std::vector<long> destroyed;   // connections of that signal destroyed from inside the call ...
    std::vector<long> destroyed_before_turn; // ... those of them that had not been invoked yet
    std::vector<long> added;       // connections added to that signal from inside the call
  } reentry;
  void reenter(long cid, unsigned arg);
  long do_connect(int s, bool last_destroys, std::string const &n);

  // callbacks (run inside the code under test)
  result_t on_call(long cid, unsigned arg)
  {
    if (abandon)
      return 0;
    bool const strike = sim::fault::hit(sim::fault::cb);
    sim::fault::Harness h;
    invoked.push_back(cid);
    args_seen.push_back(arg);
    if (reentry.armed && invoked.size() == reentry.at + 1U)
    {
      reentry.armed = false;
      reenter(cid, arg);
    }
    if (strike)
      throw sim::Fault{"simulated exception from a signal callback"};
    return cb_value(cid, arg);
  }

  void on_unregister(long cid);

  // ---- checks
  void check_lists(std::string const &when)
  {
    for (unsigned l = 0; l < LISTS; ++l)
    {
      if (!lists[l])
        continue;
      List &L = *lists[l];
      List const &CL = L;
      std::vector<long> const &m = mlist[l];
      std::vector<long> fwd, bwd, cfwd;
      std::size_t const bound = ELEMS + 2;
      for (auto it = L.begin(); it != L.end(); ++it)
      {
        SIM_CHECK(fwd.size() < bound, "ring", when + ": forward iteration of list " + std::to_string(l) + " does not return to the head");
        fwd.push_back(it->id);
      }
      for (auto it = CL.begin(); it != CL.end(); ++it)
      {
        SIM_CHECK(cfwd.size() < bound, "ring", when + ": const iteration does not terminate");
        cfwd.push_back(it->id);
      }
      for (auto it = L.end(); it != L.begin();)
      {
        SIM_CHECK(bwd.size() < bound, "ring", when + ": backward iteration of list " + std::to_string(l) + " does not return to the head");
        --it;
        bwd.push_back(it->id);
      }
      SIM_CHECK(fwd == m, "membership", when + ": list " + std::to_string(l) + " contains " + vstr(fwd) + ", model " + vstr(m));
      {
        // the other iterator operations: post-increment / post-decrement, operator->, copies
        std::vector<long> post;
        for (auto it = L.begin(); it != L.end() && post.size() < bound;)
        {
          auto const old = it++;
          post.push_back((*old).id);
          auto back = it;
          back--;
          SIM_CHECK(back == old && !(back != old), "iterator", when + ": it++ followed by it-- does not return to the same element");
        }
        SIM_CHECK(post == m, "iterator", when + ": post-increment iteration of list " + std::to_string(l) + " gives " + vstr(post) + ", model " + vstr(m));
      }
      SIM_CHECK(cfwd == m, "membership", when + ": const iteration differs");
      std::vector<long> rm(m.rbegin(), m.rend());
      SIM_CHECK(bwd == rm, "membership", when + ": backward iteration of list " + std::to_string(l) + " gives " + vstr(bwd) + ", model " + vstr(rm));
      SIM_CHECK(CL.empty() == m.empty(), "empty", when + ": list " + std::to_string(l));
    }
  }

  void check_signals(std::string const &when)
  {
    for (unsigned s = 0; s < SIGS; ++s)
    {
      if (!sigs[s])
        continue;
      SIM_CHECK(sigs[s]->empty() == msig[s].empty(), "signal-empty", when + ": signal " + std::to_string(s) + " empty()=" + std::to_string(sigs[s]->empty()) + " model has " + std::to_string(msig[s].size()) + " connections");
    }
    for (auto const &c : conns)
      if (c)
        SIM_CHECK(c->unreg_runs == 0, "unregister-early", when + ": unregister callback of live connection " + std::to_string(c->cid) + " ran");
  }

  std::string state_str()
  {
    std::string r;
    for (unsigned l = 0; l < LISTS; ++l)
      if (lists[l])
        r += "L" + std::to_string(l) + "=" + vstr(mlist[l]) + " ";
    for (unsigned s = 0; s < SIGS; ++s)
      if (sigs[s])
        r += "S" + std::to_string(s) + (sig_moved_from[s] ? "(moved-from)" : "") + "=" + vstr(msig[s]) + " ";
    return r;
  }

  template <typename F>
  bool guarded(std::string const &n, F &&f)
  {
    try
    {
      sim::fault::Sut s;
      f();
      return true;
    }
    catch (std::bad_alloc const &)
    {
      SIM_CHECK(sim::fault::fired(sim::fault::alloc), "undocumented-exception", n + ": bad_alloc without an injected failure");
      return false;
    }
    catch (sim::Fault const &)
    {
      return false;
    }
  }
  template <typename F>
  void nothrow(std::string const &n, F &&f)
  {
    if (!guarded(n, f))
      sim::violate("unexpected-throw", n + ": an operation that cannot fail threw");
  }
  // heap objects of the harness (lists, elements): storage comes from the harness (never a fault
  // site), the constructor runs as code under test
  template <typename T, typename... Args>
  std::unique_ptr<T> make_in_sut(Args &&...args)
  {
    void *const mem = ::operator new(sizeof(T));
    sim::fault::Sut s;
    return std::unique_ptr<T>(new (mem) T(std::forward<Args>(args)...));
  }

  void model_remove_elem(unsigned e)
  {
    if (where[e] >= 0)
    {
      auto &m = mlist[where[e]];
      m.erase(std::find(m.begin(), m.end(), elems[e]->id));
      where[e] = -1;
    }
  }

  void destroy_conn(unsigned c, std::string const &n);
  void run_op(sim::Op const &op);
  void run(sim::Plan const &plan);
};

template <typename Signal, bool Unreg, bool Value>
struct SigImpl : ISig
{
  std::unique_ptr<Signal> sig;
  unsigned k;
  SigImpl(std::unique_ptr<Signal> s, unsigned kk) : sig(std::move(s)), k(kk) {}
  unsigned kind() const override { return k; }

  fcppt::signal::auto_connection connect(World &w, long cid, bool) override
  {
    // captures are larger than std::function's small buffer, so creating the function allocates
    struct Pad
    {
      long a[4];
    } pad{{cid, cid, cid, cid}};
    World *wp = &w;
    // the callables are the caller's: building them is not a fault site of the library
    sim::fault::Harness build_scope;
    auto const call_connect = [this](auto &&...a) {
      sim::fault::Sut s;
      return sig->connect(std::forward<decltype(a)>(a)...);
    };
    if constexpr (Value)
    {
      typename Signal::function f{[wp, cid, pad](Payload arg) -> result_t { return wp->on_call(cid + 0 * pad.a[0], arg.seen()); }};
      if constexpr (Unreg)
        return call_connect(std::move(f), fcppt::signal::unregister::function{[wp, cid, pad] { wp->on_unregister(cid + 0 * pad.a[1]); }});
      else
        return call_connect(std::move(f));
    }
    else
    {
      typename Signal::function f{[wp, cid, pad](Payload arg) { wp->on_call(cid + 0 * pad.a[0], arg.seen()); }};
      if constexpr (Unreg)
        return call_connect(std::move(f), fcppt::signal::unregister::function{[wp, cid, pad] { wp->on_unregister(cid + 0 * pad.a[1]); }});
      else
        return call_connect(std::move(f));
    }
  }
  std::optional<result_t> call(result_t initial, unsigned arg) override
  {
    if constexpr (Value)
    {
      std::optional<Payload> payload;
      {
        sim::fault::Harness h;
        payload.emplace(arg);
      }
      return (*sig)(typename Signal::initial_value{initial}, *payload);
    }
    else
    {
      std::optional<Payload> payload;
      {
        sim::fault::Harness h;
        payload.emplace(arg);
      }
      (*sig)(*payload);
      return std::nullopt;
    }
  }
  bool empty() const override { return sig->empty(); }
  std::unique_ptr<ISig> move_construct() override
  {
    // storage and wrapper belong to the harness (never fault sites); only the signal's move
    // constructor runs as code under test
    void *mem = nullptr;
    {
      sim::fault::Harness h;
      mem = ::operator new(sizeof(Signal));
    }
    std::unique_ptr<Signal> ns(new (mem) Signal(std::move(*sig)));
    sim::fault::Harness h;
    return std::make_unique<SigImpl>(std::move(ns), k);
  }
  bool move_assign_from(ISig &o) override
  {
    if (o.kind() != k)
      return false;
    *sig = std::move(*static_cast<SigImpl &>(o).sig);
    return true;
  }
};

using SigV = fcppt::signal::object<result_t(Payload)>;
using SigN = fcppt::signal::object<void(Payload)>;
using SigVU = fcppt::signal::object<result_t(Payload), fcppt::signal::unregister::base>;
using SigNU = fcppt::signal::object<void(Payload), fcppt::signal::unregister::base>;

template <typename Signal, bool Unreg, bool Value, typename... Args>
std::unique_ptr<ISig> make_sig_impl(unsigned kind, Args &&...args)
{
  void *mem = nullptr;
  {
    sim::fault::Harness h;
    mem = ::operator new(sizeof(Signal));
  }
  std::unique_ptr<Signal> ns(new (mem) Signal(std::forward<Args>(args)...));
  sim::fault::Harness h;
  return std::make_unique<SigImpl<Signal, Unreg, Value>>(std::move(ns), kind);
}

std::unique_ptr<ISig> make_sig(unsigned kind, unsigned k)
{
  auto const comb = [k](result_t a, result_t b) { return combine(k, a, b); };
  switch (kind % 4)
  {
  case 0:
    return make_sig_impl<SigV, false, true>(0, SigV::combiner_function{comb});
  case 1:
    return make_sig_impl<SigN, false, false>(1);
  case 2:
    return make_sig_impl<SigVU, true, true>(2, SigVU::combiner_function{comb});
  default:
    return make_sig_impl<SigNU, true, false>(3);
  }
}

void World::on_unregister(long cid)
{
  if (abandon)
    return;
  sim::fault::Harness h;
  Conn *c = conn_by_cid(cid);
  if (c == nullptr)
  {
    defer("unregister-unknown", "unregister callback for a connection that does not exist: " + std::to_string(cid));
    return;
  }
  ++c->unreg_runs;
  if (dying != cid)
    defer("unregister-early", "unregister callback of connection " + std::to_string(cid) + " ran although it is not being destroyed");
  if (c->unreg_runs != 1)
    defer("unregister-twice", "unregister callback of connection " + std::to_string(cid) + " ran " + std::to_string(c->unreg_runs) + " times");
  // the documented use (examples/signal/unregister.cpp): look at empty() to see whether this was
  // the last connection; the dying connection is no longer a member
  int const s = c->sig;
  if (s >= 0 && sigs[s])
  {
    std::vector<long> rest = msig[s];
    {
      auto const pos = std::find(rest.begin(), rest.end(), cid);
      if (pos != rest.end())
        rest.erase(pos);
      else
        defer("unregister-of-failed-connect", "the unregister callback of connection " + std::to_string(cid) + " ran although that connection never became a member of its signal");
    }
    bool const e = sigs[s]->empty();
    if (e != rest.empty())
      defer("membership-in-unregister", "inside the unregister callback of " + std::to_string(cid) + " signal.empty() is " + std::to_string(e) + " but " + std::to_string(rest.size()) + " other connections are alive");
    ctx.probe("unregister_saw_signal");
    if (e && c->destroy_signal_when_empty)
    {
      // ... and destroys the signal, as the documented example does
      {
        sim::fault::Sut sut;
        sigs[s].reset();
      }
      msig[s].clear();
      sig_moved_from[s] = false;
      ctx.probe("unregister_destroyed_signal");
    }
  }
}

void World::destroy_conn(unsigned ci, std::string const &n)
{
  Conn &c = *conns[ci];
  long const cid = c.cid;
  dying = cid;
  int const s = c.sig;
  if (unwinding_next)
  {
    // the connection dies as a local of a scope that is left by an exception (ordinary RAII
    // cleanup during stack unwinding): it dies all the same
    unwinding_next = false;
    ctx.probe("connection_destroyed_during_unwinding");
    nothrow(n, [&] {
      try
      {
        std::optional<fcppt::signal::auto_connection> local(std::move(c.handle));
        c.handle.reset();
        throw sim::Fault{"an exception unwinding the scope that owns the connection"};
      }
      catch (sim::Fault const &)
      {
      }
    });
  }
  else
    nothrow(n, [&] { c.handle.reset(); });
  dying = 0;
  raise_pending();
  if (c.with_unreg)
    SIM_CHECK(c.unreg_runs == 1, "unregister-exactly-once", "unregister callback of connection " + std::to_string(cid) + " ran " + std::to_string(c.unreg_runs) + " times at its death");
  else
    SIM_CHECK(c.unreg_runs == 0, "unregister-exactly-once", "connection without unregister callback ran one");
  if (s >= 0 && sigs[s])
  {
    auto &m = msig[s];
    auto it = std::find(m.begin(), m.end(), cid);
    if (it != m.end())
      m.erase(it);
  }
  conns[ci].reset();
}

// returns the id of the new connection, 0 if there is no free slot or the connect failed
long World::do_connect(int s, bool last_destroys, std::string const &n)
{
  for (unsigned c = 0; c < CONNS; ++c)
    if (!conns[c])
    {
      long const cid = counter++;
      conns[c].emplace();
      conns[c]->cid = cid;
      conns[c]->with_unreg = sigs[s]->kind() >= 2;
      conns[c]->destroy_signal_when_empty = last_destroys && conns[c]->with_unreg;
      conns[c]->sig = s;
      bool const ok = guarded(n, [&] { conns[c]->handle.emplace(sigs[s]->connect(*this, cid, conns[c]->with_unreg)); });
      if (ok)
        msig[s].push_back(cid);
      else
      {
        // failed connect: the signal is unchanged and no unregister callback may ever run
        pending_cls.clear(); // (the precise check follows)
        SIM_CHECK(conns[c]->unreg_runs == 0, "unregister-of-failed-connect", "connect() failed with an injected allocation failure, yet the unregister callback of the connection that never existed ran");
        conns[c].reset();
        ctx.probe("connect_failed");
      }
      ctx.ev("connect " + std::to_string(cid) + " to signal " + std::to_string(s) + (ok ? "" : " threw"));
      return ok ? cid : 0;
    }
  return 0;
}

// Runs inside a callback of signal reentry.sig (connection `cid`). Everything done here is an
// ordinary operation of the history; it merely happens while a call is in progress. Never touches
// the running callback's own connection (destroying the std::function one is executing is the
// caller's error) and never destroys the signal being called.
void World::reenter(long cid, unsigned arg)
{
  int const s = reentry.sig;
  switch (reentry.kind % 6)
  {
  case 0:
  {
    // destroy another connection of the signal being called: target%3 prefers the successor,
    // the predecessor, or any other one
    std::vector<long> const &m = msig[s];
    auto const self = std::find(m.begin(), m.end(), cid);
    if (self == m.end() || m.size() < 2)
      return;
    long victim = 0;
    std::uint64_t const t = reentry.target;
    if (t % 3 == 0 && self + 1 != m.end())
      victim = *(self + 1);
    else if (t % 3 == 1 && self != m.begin())
      victim = *(self - 1);
    else
    {
      std::vector<long> others;
      for (long x : m)
        if (x != cid)
          others.push_back(x);
      victim = others[(t / 3) % others.size()];
    }
    for (unsigned c = 0; c < CONNS; ++c)
      if (conns[c] && conns[c]->cid == victim)
      {
        conns[c]->destroy_signal_when_empty = false;
        reentry.destroyed.push_back(victim);
        if (std::find(invoked.begin(), invoked.end(), victim) == invoked.end())
          reentry.destroyed_before_turn.push_back(victim);
        ctx.probe(victim == (self + 1 != m.end() ? *(self + 1) : 0) ? "reentrant_destroy_successor" : "reentrant_destroy_other");
        destroy_conn(c, "call/reentrant-disconnect");
        ctx.ev("  (in call) disconnect " + std::to_string(victim));
        return;
      }
    return;
  }
  case 1:
  {
    // destroy a connection that belongs to another signal (or to none any more)
    std::vector<unsigned> cand;
    for (unsigned c = 0; c < CONNS; ++c)
      if (conns[c] && conns[c]->sig != s)
        cand.push_back(c);
    if (cand.empty())
      return;
    unsigned const c = cand[reentry.target % cand.size()];
    long const victim = conns[c]->cid;
    ctx.probe("reentrant_destroy_elsewhere");
    destroy_conn(c, "call/reentrant-disconnect");
    ctx.ev("  (in call) disconnect " + std::to_string(victim));
    return;
  }
  case 2:
  {
    // connect to the signal being called
    long const added = do_connect(s, false, "call/reentrant-connect");
    if (added != 0)
    {
      reentry.added.push_back(added);
      ctx.probe("reentrant_connect_same_signal");
    }
    return;
  }
  case 3:
  {
    // connect to another signal
    for (unsigned k = 0; k < SIGS; ++k)
    {
      unsigned const t = static_cast<unsigned>((reentry.target + k) % SIGS);
      if (static_cast<int>(t) != s && sigs[t] && !sig_moved_from[t])
      {
        if (do_connect(static_cast<int>(t), false, "call/reentrant-connect") != 0)
          ctx.probe("reentrant_connect_other_signal");
        return;
      }
    }
    return;
  }
  case 4:
  case 5:
  {
    // call another signal from inside the callback - or (5) the signal being called itself: one
    // level of recursion (the inner call's callbacks do nothing special)
    bool const same = reentry.kind % 6 == 5;
    for (unsigned k = 0; k < SIGS; ++k)
    {
      unsigned const t = same ? static_cast<unsigned>(s) : static_cast<unsigned>((reentry.target + k) % SIGS);
      if ((!same && static_cast<int>(t) == s) || !sigs[t] || sig_moved_from[t])
        continue;
      if (same)
        ctx.probe("reentrant_recursive_call");
      std::vector<long> outer_invoked;
      std::vector<unsigned> outer_args;
      outer_invoked.swap(invoked);
      outer_args.swap(args_seen);
      struct Restore
      {
        World &w;
        std::vector<long> &i;
        std::vector<unsigned> &a;
        ~Restore()
        {
          w.invoked.swap(i);
          w.args_seen.swap(a);
        }
      };
      std::optional<result_t> res;
      bool ok = false;
      std::vector<long> inner;
      {
        Restore restore{*this, outer_invoked, outer_args};
        ok = guarded("call/nested", [&] { res = sigs[t]->call(7, arg); });
        inner = invoked;
        for (unsigned a : args_seen)
          SIM_CHECK(a == arg, "callback-argument", "a callback of the nested call of signal " + std::to_string(t) + " received " + std::to_string(a) + " instead of " + std::to_string(arg));
      }
      std::vector<long> const &m = msig[t];
      if (ok)
      {
        SIM_CHECK(inner == m, "invocation", "nested call of signal " + std::to_string(t) + " invoked " + vstr(inner) + ", live connections in order are " + vstr(m));
        if (sigs[t]->kind() % 2 == 0)
        {
          result_t want = 7;
          for (long x : m)
            want = combine(sig_comb[t], want, cb_value(x, arg));
          SIM_CHECK(res.has_value() && *res == want, "fold-result", "nested call returned " + std::to_string(res.value_or(0)) + ", left fold gives " + std::to_string(want));
        }
      }
      else
        SIM_CHECK(inner.size() <= m.size() && std::equal(inner.begin(), inner.end(), m.begin()), "invocation", "nested call: after a throwing callback the invoked callbacks " + vstr(inner) + " are not a prefix of " + vstr(m));
      ctx.probe("reentrant_nested_call");
      ctx.ev("  (in call) call signal " + std::to_string(t) + " -> " + vstr(inner));
      return;
    }
    return;
  }
  default:
    return;
  }
}

void World::run_op(sim::Op const &op)
{
  std::string const &n = op.name;
  // ---------------- intrusive
  if (n == "list_new")
  {
    for (unsigned l = 0; l < LISTS; ++l)
      if (!lists[l])
      {
        lists[l] = make_in_sut<List>();
        mlist[l].clear();
        ctx.ev("list_new " + std::to_string(l));
        return;
      }
    return;
  }
  auto pick_list = [&](char const *key) -> int {
    std::vector<unsigned> occ;
    for (unsigned l = 0; l < LISTS; ++l)
      if (lists[l])
        occ.push_back(l);
    if (occ.empty())
      return -1;
    return static_cast<int>(occ[op.getu(key) % occ.size()]);
  };
  auto pick_elem = [&](char const *key) -> int {
    std::vector<unsigned> occ;
    for (unsigned e = 0; e < ELEMS; ++e)
      if (elems[e])
        occ.push_back(e);
    if (occ.empty())
      return -1;
    return static_cast<int>(occ[op.getu(key) % occ.size()]);
  };
  auto free_elem = [&]() -> int {
    for (unsigned e = 0; e < ELEMS; ++e)
      if (!elems[e])
        return static_cast<int>(e);
    return -1;
  };
  if (n == "list_destroy")
  {
    int const l = pick_list("l");
    if (l < 0)
      return;
    if (!mlist[l].empty())
      ctx.probe("list_destroyed_before_elements");
    nothrow(n, [&] { lists[l].reset(); });
    for (unsigned e = 0; e < ELEMS; ++e)
      if (where[e] == l)
        where[e] = -1;
    mlist[l].clear();
    ctx.ev("list_destroy " + std::to_string(l));
    return;
  }
  if (n == "list_move_ctor")
  {
    int const l = pick_list("l");
    if (l < 0)
      return;
    for (unsigned t = 0; t < LISTS; ++t)
      if (!lists[t])
      {
        ctx.probe(mlist[l].empty() ? "list_move_ctor_from_empty" : "list_move_ctor_from_nonempty");
        lists[t] = make_in_sut<List>(std::move(*lists[l]));
        mlist[t] = mlist[l];
        mlist[l].clear();
        for (unsigned e = 0; e < ELEMS; ++e)
          if (where[e] == l)
            where[e] = static_cast<int>(t);
        ctx.ev("list_move_ctor " + std::to_string(l) + " -> " + std::to_string(t));
        return;
      }
    return;
  }
  if (n == "list_move_assign")
  {
    int const src = pick_list("l");
    int const dst = pick_list("t");
    if (src < 0 || dst < 0)
      return;
    if (src == dst)
    {
      ctx.probe("list_self_move_assign");
      nothrow(n, [&] {
        List &x = *lists[dst];
        x = std::move(*lists[src]);
      });
      // self-move is not mentioned by the property: the list may be unchanged or have let go of
      // its members (which are then in no list); anything else shows up in the checks below
      if (lists[dst]->empty() && !mlist[dst].empty())
      {
        for (unsigned e = 0; e < ELEMS; ++e)
          if (where[e] == dst)
            where[e] = -1;
        mlist[dst].clear();
        ctx.probe("self_move_emptied_the_list");
      }
      ctx.ev("list_self_move_assign " + std::to_string(src));
      return;
    }
    ctx.probe(std::string("list_move_assign_") + (mlist[src].empty() ? "empty" : "nonempty") + "_to_" + (mlist[dst].empty() ? "empty" : "nonempty"));
    nothrow(n, [&] { *lists[dst] = std::move(*lists[src]); });
    // dst now holds src's members. What becomes of dst's PREVIOUS members is not fixed by the
    // property: they may be orphaned (in no list, still safely movable/destructible - what the
    // implementation does) or end up in the moved-from source (swap idiom). Read the source back.
    std::vector<long> const dst_old = mlist[dst];
    std::vector<long> src_now;
    for (auto it = lists[src]->begin(); it != lists[src]->end(); ++it)
    {
      SIM_CHECK(src_now.size() < ELEMS + 2, "ring", n + ": iteration of the moved-from list does not terminate");
      src_now.push_back(it->id);
    }
    bool const swapped = !src_now.empty() && src_now == dst_old;
    SIM_CHECK(src_now.empty() || swapped, "membership", n + ": the moved-from list contains " + vstr(src_now) + ", neither nothing nor the target's previous members " + vstr(dst_old));
    for (unsigned e = 0; e < ELEMS; ++e)
    {
      if (where[e] == dst)
        where[e] = swapped ? src : -1;
      else if (where[e] == src)
        where[e] = dst;
    }
    mlist[dst] = mlist[src];
    mlist[src] = swapped ? dst_old : std::vector<long>{};
    if (swapped)
      ctx.probe("list_move_assign_swapped");
    ctx.ev("list_move_assign " + std::to_string(src) + " -> " + std::to_string(dst));
    return;
  }
  if (n == "elem_new")
  {
    int const l = pick_list("l");
    int const e = free_elem();
    if (l < 0 || e < 0)
      return;
    long const id = counter++;
    elems[e] = make_in_sut<Elem>(*lists[l], id);
    mlist[l].push_back(id);
    where[e] = l;
    ctx.ev("elem_new " + std::to_string(id) + " in list " + std::to_string(l));
    return;
  }
  if (n == "elem_destroy")
  {
    int const e = pick_elem("e");
    if (e < 0)
      return;
    long const id = elems[e]->id;
    if (where[e] < 0)
      ctx.probe("unlinked_elem_destroyed");
    model_remove_elem(static_cast<unsigned>(e));
    nothrow(n, [&] { elems[e].reset(); });
    ctx.ev("elem_destroy " + std::to_string(id));
    return;
  }
  if (n == "elem_unlink")
  {
    int const e = pick_elem("e");
    if (e < 0)
      return;
    model_remove_elem(static_cast<unsigned>(e));
    nothrow(n, [&] { elems[e]->unlink(); });
    ctx.ev("elem_unlink " + std::to_string(elems[e]->id));
    return;
  }
  if (n == "elem_move_ctor")
  {
    int const e = pick_elem("e");
    int const t = free_elem();
    if (e < 0 || t < 0)
      return;
    long const id = counter++;
    if (where[e] < 0)
      ctx.probe("move_ctor_from_unlinked_elem");
    elems[t] = make_in_sut<Elem>(std::move(*elems[e]), id);
    // the new element takes over the source's position; the source becomes unlinked
    if (where[e] >= 0)
    {
      auto &m = mlist[where[e]];
      *std::find(m.begin(), m.end(), elems[e]->id) = id;
      where[t] = where[e];
      where[e] = -1;
    }
    else
      where[t] = -1;
    ctx.ev("elem_move_ctor " + std::to_string(elems[e]->id) + " -> " + std::to_string(id));
    return;
  }
  if (n == "elem_move_assign")
  {
    int const src = pick_elem("e");
    int const dst = pick_elem("t");
    if (src < 0 || dst < 0)
      return;
    if (src == dst)
    {
      ctx.probe("elem_self_move_assign");
      nothrow(n, [&] {
        Elem &x = *elems[dst];
        x = std::move(*elems[src]);
      });
      // self-move: unchanged, or unlinked (a moved-from element is not a member) - read back
      if (where[dst] >= 0)
      {
        bool still = false;
        std::size_t guard = 0;
        for (auto it = lists[where[dst]]->begin(); it != lists[where[dst]]->end() && guard < ELEMS + 2; ++it, ++guard)
          still = still || it->id == elems[dst]->id;
        if (!still)
        {
          model_remove_elem(static_cast<unsigned>(dst));
          ctx.probe("self_move_unlinked_the_element");
        }
      }
      ctx.ev("elem_self_move_assign");
      return;
    }
    if (where[src] < 0)
      ctx.probe("move_assign_from_unlinked_elem");
    nothrow(n, [&] { *elems[dst] = std::move(*elems[src]); });
    model_remove_elem(static_cast<unsigned>(dst));
    if (where[src] >= 0)
    {
      auto &m = mlist[where[src]];
      *std::find(m.begin(), m.end(), elems[src]->id) = elems[dst]->id;
      where[dst] = where[src];
      where[src] = -1;
    }
    ctx.ev("elem_move_assign " + std::to_string(elems[src]->id) + " -> " + std::to_string(elems[dst]->id));
    return;
  }

  // ---------------- signals
  auto pick_sig = [&](char const *key) -> int {
    std::vector<unsigned> occ;
    for (unsigned s = 0; s < SIGS; ++s)
      if (sigs[s])
        occ.push_back(s);
    if (occ.empty())
      return -1;
    return static_cast<int>(occ[op.getu(key) % occ.size()]);
  };
  auto pick_conn = [&](char const *key) -> int {
    std::vector<unsigned> occ;
    for (unsigned c = 0; c < CONNS; ++c)
      if (conns[c])
        occ.push_back(c);
    if (occ.empty())
      return -1;
    return static_cast<int>(occ[op.getu(key) % occ.size()]);
  };
  if (n == "sig_new")
  {
    for (unsigned s = 0; s < SIGS; ++s)
      if (!sigs[s])
      {
        unsigned const kind = static_cast<unsigned>(op.getu("kind") % 4);
        unsigned const comb_id = static_cast<unsigned>(counter++ % 97);
        bool const ok = guarded(n, [&] { sigs[s] = make_sig(kind, comb_id); });
        if (ok)
        {
          msig[s].clear();
          sig_moved_from[s] = false;
          sig_comb[s] = comb_id;
        }
        else
          SIM_CHECK(!sigs[s], "ctor-threw-but-object-exists", n);
        ctx.ev("sig_new " + std::to_string(s) + " kind=" + std::to_string(kind) + (ok ? "" : " threw"));
        return;
      }
    return;
  }
  if (n == "sig_destroy")
  {
    int const s = pick_sig("s");
    if (s < 0)
      return;
    if (!msig[s].empty())
      ctx.probe("signal_destroyed_before_connections");
    nothrow(n, [&] { sigs[s].reset(); });
    for (auto &c : conns)
      if (c && c->sig == s)
        c->sig = -1;
    msig[s].clear();
    sig_moved_from[s] = false;
    ctx.ev("sig_destroy " + std::to_string(s));
    return;
  }
  if (n == "sig_move_ctor")
  {
    int const s = pick_sig("s");
    if (s < 0 || sig_moved_from[s])
      return;
    for (unsigned t = 0; t < SIGS; ++t)
      if (!sigs[t])
      {
        bool const ok = guarded(n, [&] { sigs[t] = sigs[s]->move_construct(); });
        if (ok)
        {
          msig[t] = msig[s];
          msig[s].clear();
          sig_comb[t] = sig_comb[s];
          sig_moved_from[t] = false;
          sig_moved_from[s] = true;
          for (auto &c : conns)
            if (c && c->sig == s)
              c->sig = static_cast<int>(t);
        }
        else
          SIM_CHECK(!sigs[t], "ctor-threw-but-object-exists", n);
        ctx.ev("sig_move_ctor " + std::to_string(s) + " -> " + std::to_string(t) + (ok ? "" : " threw"));
        return;
      }
    return;
  }
  if (n == "sig_move_assign")
  {
    int const src = pick_sig("s");
    int const dst = pick_sig("t");
    if (src < 0 || dst < 0 || src == dst || sig_moved_from[src] || sigs[src]->kind() != sigs[dst]->kind())
      return;
    ctx.probe(std::string("sig_move_assign_") + (msig[src].empty() ? "empty" : "nonempty") + "_to_" + (msig[dst].empty() ? "empty" : "nonempty"));
    nothrow(n, [&] { sigs[dst]->move_assign_from(*sigs[src]); });
    // as for lists: the target's previous connections are orphaned or (swap idiom) now belong to
    // the moved-from source, which is not used any further either way
    std::vector<long> const dst_old = msig[dst];
    unsigned const dst_old_comb = sig_comb[dst];
    bool const swapped = !sigs[src]->empty() && !dst_old.empty();
    for (auto &c : conns)
    {
      if (!c)
        continue;
      if (c->sig == dst)
        c->sig = swapped ? src : -1;
      else if (c->sig == src)
        c->sig = dst;
    }
    msig[dst] = msig[src];
    msig[src] = swapped ? dst_old : std::vector<long>{};
    sig_comb[dst] = sig_comb[src];
    if (swapped)
    {
      sig_comb[src] = dst_old_comb;
      ctx.probe("sig_move_assign_swapped");
    }
    sig_moved_from[dst] = false;
    sig_moved_from[src] = true;
    ctx.ev("sig_move_assign " + std::to_string(src) + " -> " + std::to_string(dst));
    return;
  }
  if (n == "connect")
  {
    int const s = pick_sig("s");
    if (s < 0 || sig_moved_from[s])
      return;
    (void)do_connect(s, op.get("last_destroys") != 0, n);
    return;
  }
  if (n == "disconnect")
  {
    int const c = pick_conn("c");
    if (c < 0)
      return;
    long const cid = conns[c]->cid;
    if (conns[c]->sig < 0)
      ctx.probe("orphaned_connection_destroyed");
    unwinding_next = op.get("unw") != 0;
    destroy_conn(static_cast<unsigned>(c), n);
    ctx.ev("disconnect " + std::to_string(cid));
    return;
  }
  if (n == "call")
  {
    int const s = pick_sig("s");
    if (s < 0 || sig_moved_from[s])
      return;
    unsigned const arg = static_cast<unsigned>(op.getu("arg") % 100);
    result_t const initial = static_cast<result_t>(op.getu("init") % 1000);
    invoked.clear();
    args_seen.clear();
    reentry = Reentry{};
    reentry.sig = s;
    if (op.has("re"))
    {
      reentry.armed = true;
      reentry.at = static_cast<unsigned>(op.getu("re") % 4);
      reentry.kind = static_cast<unsigned>(op.getu("rk"));
      reentry.target = op.getu("rt");
    }
    std::vector<long> const m0 = msig[s];
    std::optional<result_t> res;
    bool const ok = guarded(n, [&] { res = sigs[s]->call(initial, arg); });
    reentry.armed = false;
    raise_pending();
    // what the call had to reach: the connections at its start, without those that were destroyed
    // before their turn came ("invokes exactly the callbacks whose connection object is still
    // alive"), in order; a connection ADDED from inside the call may or may not be invoked (the
    // property does not say whether the running call reaches it)
    std::vector<long> m;
    for (long cid : m0)
      if (std::find(reentry.destroyed_before_turn.begin(), reentry.destroyed_before_turn.end(), cid) == reentry.destroyed_before_turn.end())
        m.push_back(cid);
    m.insert(m.end(), reentry.added.begin(), reentry.added.end());
    auto const optional_member = [&](long cid) {
      return std::find(reentry.added.begin(), reentry.added.end(), cid) != reentry.added.end();
    };
    auto const consistent = [&](bool complete) {
      std::size_t pos = 0; // next position of m to be matched
      for (long cid : invoked)
      {
        while (pos < m.size() && m[pos] != cid)
        {
          if (!optional_member(m[pos]))
            return false; // a live connection was skipped
          ++pos;
        }
        if (pos == m.size())
          return false; // not a member, out of order, or invoked twice
        ++pos;
      }
      if (complete)
        for (; pos < m.size(); ++pos)
          if (!optional_member(m[pos]))
            return false;
      return true;
    };
    for (unsigned a : args_seen)
      SIM_CHECK(a == arg, "callback-argument", "a callback of signal " + std::to_string(s) + " received " + std::to_string(a) + " instead of the argument " + std::to_string(arg) + " the signal was called with (by-value arguments must reach every callback intact)");
    if (ok)
    {
      SIM_CHECK(consistent(true), "invocation", "call of signal " + std::to_string(s) + " invoked " + vstr(invoked) + ", live connections in order are " + vstr(m) + (reentry.destroyed_before_turn.empty() ? "" : "; destroyed during the call before their turn (must not be invoked): " + vstr(reentry.destroyed_before_turn)) + (reentry.added.empty() ? "" : ", added during the call " + vstr(reentry.added)));
      if (sigs[s]->kind() % 2 == 0)
      {
        result_t want = initial;
        for (long cid : invoked)
          want = combine(sig_comb[s], want, cb_value(cid, arg));
        SIM_CHECK(res.has_value() && *res == want, "fold-result", "signal returned " + std::to_string(res.value_or(0)) + ", left fold from the initial value gives " + std::to_string(want));
      }
    }
    else
    {
      // a callback threw: exactly a prefix of the members was invoked, the thrower last
      // (or copying the by-value argument for a callback hit an injected allocation failure)
      SIM_CHECK(sim::fault::fired(sim::fault::cb) || sim::fault::fired(sim::fault::alloc), "undocumented-exception", n);
      SIM_CHECK(consistent(false), "invocation", "after a throwing callback the invoked callbacks " + vstr(invoked) + " are not a prefix of " + vstr(m));
      ctx.probe("callback_threw");
    }
    ctx.ev("call signal " + std::to_string(s) + " -> " + vstr(invoked) + (res ? " r=" + std::to_string(*res) : "") + (ok ? "" : " threw"));
    return;
  }
  sim::violate("harness", "unknown op " + n);
}

void World::run(sim::Plan const &plan)
{
  long const live0 = sim::heap::live_sut();
  unsigned effective = 0;
  for (sim::Op const &op : plan.ops)
  {
    sim::fault::begin_op(op);
    if (ctx.trace)
      std::printf("op %s   state: %s\n", op.str().c_str(), state_str().c_str());
    std::uint64_t const ev0 = ctx.events;
    run_op(op);
    if (ctx.events != ev0)
      ++effective;
    check_lists(op.name);
    check_signals(op.name);
    ctx.state(state_str());
    ctx.end_op();
  }
  // teardown in plan-determined order: connections, signals, elements, lists - or the reverse
  sim::fault::begin_op(sim::Op("teardown"));
  bool const rev = plan.cfg.get("teardown_rev") != 0;
  auto kill_conns = [&] {
    for (unsigned c = 0; c < CONNS; ++c)
      if (conns[c])
        destroy_conn(c, "teardown");
  };
  auto kill_sigs = [&] {
    for (unsigned s = 0; s < SIGS; ++s)
      if (sigs[s])
      {
        nothrow("teardown", [&] { sigs[s].reset(); });
        for (auto &c : conns)
          if (c && c->sig == static_cast<int>(s))
            c->sig = -1;
        msig[s].clear();
      }
  };
  auto kill_elems = [&] {
    for (unsigned e = 0; e < ELEMS; ++e)
      if (elems[e])
      {
        model_remove_elem(e);
        nothrow("teardown", [&] { elems[e].reset(); });
        check_lists("teardown");
      }
  };
  auto kill_lists = [&] {
    for (unsigned l = 0; l < LISTS; ++l)
      if (lists[l])
      {
        nothrow("teardown", [&] { lists[l].reset(); });
        for (unsigned e = 0; e < ELEMS; ++e)
          if (where[e] == static_cast<int>(l))
            where[e] = -1;
        mlist[l].clear();
      }
  };
  if (rev)
  {
    kill_sigs();
    kill_conns();
    kill_lists();
    kill_elems();
  }
  else
  {
    kill_conns();
    kill_sigs();
    kill_elems();
    kill_lists();
  }
  SIM_CHECK(sim::heap::live_sut() == live0, "leak", "heap blocks allocated by signals/connections still live after teardown: " + std::to_string(sim::heap::live_sut() - live0));
  ctx.nontrivial = effective >= 3;
}
}

namespace prop
{
void warmup() {}

void generate(sim::Rng &rng, sim::Plan &p, bool)
{
  bool const faulty = rng.chance(1, 3);
  if (faulty)
    p.cfg.set("faulty", 1);
  p.cfg.set("teardown_rev", static_cast<long>(rng.below(2)));
  unsigned const mode = static_cast<unsigned>(rng.below(3)); // 0 intrusive, 1 signals, 2 both
  bool const reentrant = rng.chance(1, 2); // callbacks that connect, disconnect or call from inside a call
  static char const *const iops[] = {"list_new", "list_destroy", "list_move_ctor", "list_move_assign", "elem_new", "elem_destroy", "elem_unlink", "elem_move_ctor", "elem_move_assign"};
  static char const *const sops[] = {"sig_new", "sig_destroy", "sig_move_ctor", "sig_move_assign", "connect", "disconnect", "call"};
  std::vector<std::string> bag;
  if (mode != 1)
    for (auto const *o : iops)
    {
      std::string const n = o;
      unsigned w = static_cast<unsigned>(rng.below(4));
      if (n == "elem_new")
        w += 3;
      if (n == "list_new")
        w += 1;
      if (n == "list_destroy")
        w = std::min(w, 1U);
      for (unsigned i = 0; i < w; ++i)
        bag.push_back(n);
    }
  if (mode != 0)
    for (auto const *o : sops)
    {
      std::string const n = o;
      unsigned w = static_cast<unsigned>(rng.below(4));
      if (n == "connect")
        w += 3;
      if (n == "call" || n == "sig_new")
        w += 1;
      if (n == "sig_destroy")
        w = std::min(w, 1U);
      for (unsigned i = 0; i < w; ++i)
        bag.push_back(n);
    }
  if (mode != 1)
    p.ops.push_back(sim::Op("list_new"));
  if (mode != 0)
    p.ops.push_back(sim::Op("sig_new").set("kind", static_cast<long>(rng.below(4))));
  unsigned const same_kind = rng.chance(1, 2) ? static_cast<unsigned>(rng.below(4)) : 4;
  unsigned const len = static_cast<unsigned>(rng.range(1, 50));
  unsigned const fault_pct = faulty ? static_cast<unsigned>(rng.range(3, 25)) : 0;
  for (unsigned i = 0; i < len; ++i)
  {
    sim::Op op(rng.pick(bag));
    std::string const &n = op.name;
    if (n == "list_destroy" || n == "list_move_ctor" || n == "list_move_assign" || n == "elem_new")
      op.set("l", static_cast<long>(rng.below(8)));
    if (n == "list_move_assign" || n == "elem_move_assign")
      op.set("t", static_cast<long>(rng.below(8)));
    if (n == "elem_destroy" || n == "elem_unlink" || n == "elem_move_ctor" || n == "elem_move_assign")
      op.set("e", static_cast<long>(rng.below(16)));
    if (n == "sig_new")
      op.set("kind", same_kind < 4 ? static_cast<long>(same_kind) : static_cast<long>(rng.below(4)));
    if (n == "sig_destroy" || n == "sig_move_ctor" || n == "sig_move_assign" || n == "connect" || n == "call")
      op.set("s", static_cast<long>(rng.below(8)));
    if (n == "sig_move_assign")
      op.set("t", static_cast<long>(rng.below(8)));
    if (n == "connect")
      op.set("last_destroys", rng.chance(1, 5) ? 1 : 0);
    if (n == "disconnect")
    {
      op.set("c", static_cast<long>(rng.below(16)));
      if (rng.chance(1, 3))
        op.set("unw", 1);
    }
    if (n == "call")
    {
      op.set("arg", static_cast<long>(rng.below(100))).set("init", static_cast<long>(rng.below(1000)));
      if (reentrant && rng.chance(1, 2))
        op.set("re", static_cast<long>(rng.below(3))).set("rk", static_cast<long>(rng.below(6))).set("rt", static_cast<long>(rng.below(24)));
    }
    if (fault_pct != 0 && rng.below(100) < fault_pct)
    {
      if (n == "call")
        op.sets("fault", "cb:" + std::to_string(rng.range(1, 4)));
      else if (n == "connect")
        op.sets("fault", "alloc:" + std::to_string(rng.range(1, 4)));
    }
    p.ops.push_back(op);
  }
}

void execute(sim::Plan const &p, sim::Ctx &ctx)
{
  World w(ctx);
  w.run(p);
}
}

int main(int argc, char **argv) { return sim::sim_main(argc, argv); }
