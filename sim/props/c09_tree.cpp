// C09: fcppt::container::tree keeps parent/child links consistent under every operation
//      history, also when allocations and element copies fail in the middle of an operation.
#include <fcppt/make_cref.hpp>
#include <fcppt/make_ref.hpp>
#include <fcppt/reference.hpp>
#include <fcppt/container/tree/child_position.hpp>
#include <fcppt/container/tree/comparison.hpp>
#include <fcppt/container/tree/depth.hpp>
#include <fcppt/container/tree/level.hpp>
#include <fcppt/container/tree/make_pre_order.hpp>
#include <fcppt/container/tree/make_to_root.hpp>
#include <fcppt/container/tree/map.hpp>
#include <fcppt/container/tree/object.hpp>
#include <fcppt/container/tree/pre_order.hpp>
#include <fcppt/container/tree/to_root.hpp>
#include <fcppt/optional/object.hpp>
#include <algorithm>
#include <memory>
#include <string>
#include <vector>
#include "core/main.hpp"
#include "seams/alloc.hpp"
#include "seams/val.hpp"

namespace prop
{
char const *const id = "C09";
}

namespace
{
using Tree = fcppt::container::tree::object<sim::Val>;
using LTree = fcppt::container::tree::object<long>;

constexpr unsigned SLOTS = 4;
constexpr unsigned MAX_NODES = 64;

struct M
{
  long id = 0;
  std::vector<std::unique_ptr<M>> ch;
  M *parent = nullptr;
};

std::unique_ptr<M> mcopy(M const &m)
{
  auto r = std::make_unique<M>();
  r->id = m.id;
  for (auto const &c : m.ch)
  {
    r->ch.push_back(mcopy(*c));
    r->ch.back()->parent = r.get();
  }
  return r;
}

bool mequal(M const &a, M const &b)
{
  if (a.id != b.id || a.ch.size() != b.ch.size())
    return false;
  for (std::size_t i = 0; i < a.ch.size(); ++i)
    if (!mequal(*a.ch[i], *b.ch[i]))
      return false;
  return true;
}

void mpre(M const &m, std::vector<long> &out)
{
  out.push_back(m.id);
  for (auto const &c : m.ch)
    mpre(*c, out);
}

std::size_t mdepth(M const &m)
{
  std::size_t d = 0;
  for (auto const &c : m.ch)
    d = std::max(d, mdepth(*c));
  return d + 1;
}

std::size_t mcount(M const &m)
{
  std::size_t n = 1;
  for (auto const &c : m.ch)
    n += mcount(*c);
  return n;
}

std::string mstr(M const &m)
{
  std::string r = std::to_string(m.id);
  if (!m.ch.empty())
  {
    r += "(";
    for (std::size_t i = 0; i < m.ch.size(); ++i)
      r += (i != 0 ? " " : "") + mstr(*m.ch[i]);
    r += ")";
  }
  return r;
}

std::string tstr(Tree const &t)
{
  std::string r = std::to_string(t.value().id());
  if (!t.children().empty())
  {
    r += "(";
    bool first = true;
    for (Tree const &c : t.children())
    {
      r += (first ? "" : " ") + tstr(c);
      first = false;
    }
    r += ")";
  }
  return r;
}

std::unique_ptr<M> mfrom(Tree const &t)
{
  auto r = std::make_unique<M>();
  r->id = t.value().id();
  for (Tree const &c : t.children())
  {
    r->ch.push_back(mfrom(c));
    r->ch.back()->parent = r.get();
  }
  return r;
}

struct Pair
{
  Tree *t;
  M *m;
  unsigned slot;
};

struct World
{
  std::unique_ptr<Tree> sut[SLOTS];
  std::unique_ptr<M> model[SLOTS];
  std::vector<std::unique_ptr<M>> graveyard; // models replaced during the current op
  long counter = 1;
  sim::Ctx &ctx;
  explicit World(sim::Ctx &c) : ctx(c) {}

  // ---- structural self-consistency of the real forest (independent of the model)
  static void check_links(Tree &t, Tree *expected_parent, std::string const &where, unsigned &budget)
  {
    SIM_CHECK(budget-- != 0, "links", where + ": more nodes reachable than can exist (cycle?)");
    auto p = t.parent();
    if (expected_parent == nullptr)
      SIM_CHECK(!p.has_value(), "links", where + ": root " + std::to_string(t.value().id()) + " has a parent");
    else
    {
      SIM_CHECK(p.has_value(), "links", where + ": child " + std::to_string(t.value().id()) + " of " + std::to_string(expected_parent->value().id()) + " has no parent");
      SIM_CHECK(&p.get_unsafe().get() == expected_parent, "links",
                where + ": parent() of child " + std::to_string(t.value().id()) + " is not the node that lists it (" + std::to_string(expected_parent->value().id()) + ")");
    }
    Tree const &ct = t;
    auto cp = ct.parent();
    SIM_CHECK(cp.has_value() == p.has_value() && (!p.has_value() || &cp.get_unsafe().get() == &p.get_unsafe().get()), "links", where + ": const parent() differs");
    for (Tree &c : t)
      check_links(c, &t, where, budget);
  }

  static void check_same(Tree const &t, M const &m, std::string const &where)
  {
    SIM_CHECK(!t.value().moved_from(), "moved-from-value-in-tree", where);
    SIM_CHECK(t.value().id() == m.id, "shape", where + ": value " + std::to_string(t.value().id()) + " model " + std::to_string(m.id));
    SIM_CHECK(t.children().size() == m.ch.size() && t.size() == m.ch.size() && t.empty() == m.ch.empty(), "shape",
              where + ": node " + std::to_string(m.id) + " has " + std::to_string(t.children().size()) + " children, model " + std::to_string(m.ch.size()));
    std::size_t i = 0;
    for (Tree const &c : t.children())
      check_same(c, *m.ch[i++], where);
  }

  void collect(Tree &t, M &m, unsigned slot, std::vector<Pair> &out)
  {
    out.push_back(Pair{&t, &m, slot});
    std::size_t i = 0;
    for (Tree &c : t)
      collect(c, *m.ch[i++], slot, out);
  }

  std::vector<Pair> nodes()
  {
    std::vector<Pair> out;
    for (unsigned s = 0; s < SLOTS; ++s)
      if (sut[s])
        collect(*sut[s], *model[s], s, out);
    return out;
  }

  std::string state_str()
  {
    std::string r;
    for (unsigned s = 0; s < SLOTS; ++s)
      if (model[s])
        r += "slot" + std::to_string(s) + "=" + mstr(*model[s]) + " ";
    return r;
  }

  void check_forest(std::string const &where)
  {
    for (unsigned s = 0; s < SLOTS; ++s)
    {
      SIM_CHECK(static_cast<bool>(sut[s]) == static_cast<bool>(model[s]), "harness", "slot occupancy");
      if (!sut[s])
        continue;
      unsigned budget = 4 * MAX_NODES;
      check_links(*sut[s], nullptr, where, budget);
      try
      {
        check_same(*sut[s], *model[s], where);
      }
      catch (sim::Violation &v)
      {
        v.detail += " slot " + std::to_string(s) + " sut=" + tstr(*sut[s]) + " model=" + mstr(*model[s]);
        throw;
      }
      // traversals of the library against the model
      std::vector<long> want, got;
      mpre(*model[s], want);
      Tree const &root = *sut[s];
      for (Tree const &n : fcppt::container::tree::make_pre_order(root))
        got.push_back(n.value().id());
      SIM_CHECK(got == want, "pre_order", where + " slot " + std::to_string(s));
      SIM_CHECK(fcppt::container::tree::depth(root) == mdepth(*model[s]), "depth", where);
    }
    for (Pair const &p : nodes())
    {
      std::vector<long> want, got;
      for (M *m = p.m; m != nullptr; m = m->parent)
        want.push_back(m->id);
      Tree const &n = *p.t;
      for (Tree const &x : fcppt::container::tree::make_to_root(n))
        got.push_back(x.value().id());
      SIM_CHECK(got == want, "to_root", where + " from node " + std::to_string(p.m->id));
      SIM_CHECK(fcppt::container::tree::level(n) == want.size() - 1, "level", where);
    }
  }

  // after an injected failure: the real forest must be self-consistent; slots the operation
  // did not touch must be unchanged; touched slots are read back into the model
  void after_fault(std::vector<unsigned> const &touched, std::string const &where)
  {
    ctx.probe("op_failed_by_fault");
    for (unsigned s = 0; s < SLOTS; ++s)
    {
      if (!sut[s])
        continue;
      unsigned budget = 4 * MAX_NODES;
      check_links(*sut[s], nullptr, where + " (after injected failure)", budget);
      if (std::find(touched.begin(), touched.end(), s) != touched.end())
      {
        std::unique_ptr<M> now = mfrom(*sut[s]);
        if (!mequal(*now, *model[s]))
          ctx.probe("fault_left_intermediate_state");
        graveyard.push_back(std::move(model[s]));
        model[s] = std::move(now);
      }
    }
  }

  static bool related(M const *a, M const *b)
  {
    for (M const *x = a; x != nullptr; x = x->parent)
      if (x == b)
        return true;
    for (M const *x = b; x != nullptr; x = x->parent)
      if (x == a)
        return true;
    return false;
  }

  static bool strict_descendant(M const *x, M const *anc)
  {
    for (M const *p = x->parent; p != nullptr; p = p->parent)
      if (p == anc)
        return true;
    return false;
  }

  int free_slot() const
  {
    for (unsigned s = 0; s < SLOTS; ++s)
      if (!sut[s])
        return static_cast<int>(s);
    return -1;
  }

  std::size_t total_nodes()
  {
    std::size_t n = 0;
    for (auto const &m : model)
      if (m)
        n += mcount(*m);
    return n;
  }

  template <typename F>
  bool guarded(std::string const &n, F &&f)
  {
    try
    {
      sim::fault::Sut s;
      f();
      return true;
    }
    catch (std::bad_alloc const &)
    {
      SIM_CHECK(sim::fault::fired(sim::fault::alloc), "undocumented-exception", n + ": bad_alloc without an injected failure");
      return false;
    }
    catch (sim::Fault const &)
    {
      return false;
    }
  }

  template <typename F>
  void nothrow(std::string const &n, F &&f)
  {
    if (!guarded(n, f))
      sim::violate("unexpected-throw", n + ": an operation that cannot fail threw");
  }

  // root slots live on the heap (so that ASan sees every stale pointer); their storage belongs to
  // the harness and is never a fault site - only the tree's constructor runs as code under test
  template <typename... Args>
  static std::unique_ptr<Tree> make_tree(Args &&...args)
  {
    void *mem = nullptr;
    {
      sim::fault::Harness h;
      mem = ::operator new(sizeof(Tree));
    }
    try
    {
      return std::unique_ptr<Tree>(new (mem) Tree(std::forward<Args>(args)...));
    }
    catch (...)
    {
      sim::fault::Harness h;
      ::operator delete(mem);
      throw;
    }
  }

  static Tree::iterator child_it(Tree &t, std::size_t k)
  {
    auto it = t.begin();
    std::advance(it, static_cast<std::ptrdiff_t>(k));
    return it;
  }

  void run_op(sim::Op const &op)
  {
    std::string const &n = op.name;
    std::vector<Pair> all = nodes();

    if (n == "new_root")
    {
      int const fs = free_slot();
      if (fs < 0 || total_nodes() >= MAX_NODES)
        return;
      long const id = counter++;
      sim::Val v(id);
      bool const ok = guarded(n, [&] {
        if (op.get("rv") != 0)
          sut[fs] = make_tree(std::move(v));
        else
          sut[fs] = make_tree(v);
      });
      if (ok)
      {
        model[fs] = std::make_unique<M>();
        model[fs]->id = id;
      }
      ctx.ev("new_root " + std::to_string(id) + (ok ? "" : " threw"));
      return;
    }
    if (n == "destroy_root")
    {
      std::vector<unsigned> occ;
      for (unsigned s = 0; s < SLOTS; ++s)
        if (sut[s])
          occ.push_back(s);
      if (occ.empty())
        return;
      unsigned const s = occ[op.getu("slot") % occ.size()];
      nothrow(n, [&] { sut[s].reset(); });
      model[s].reset();
      ctx.ev("destroy_root slot" + std::to_string(s));
      return;
    }
    if (all.empty())
      return;
    Pair const a = all[op.getu("node") % all.size()];
    Tree &ta = *a.t;
    M &ma = *a.m;

    if (n == "push_v" || n == "insert_v")
    {
      // `rep`: the same insertion repeated (a node that collects dozens of children within one
      // history; an implementation may treat wide nodes differently, e.g. in sort)
      unsigned const reps = 1 + static_cast<unsigned>(op.getu("rep") % 40);
      if (reps > 1)
        ctx.probe("bulk_insertion");
      for (unsigned rep_i = 0; rep_i < reps; ++rep_i)
      {
      if (total_nodes() >= MAX_NODES)
        return;
      bool const front = op.get("front") != 0;
      std::size_t const k = n == "insert_v" ? op.getu("k") % (ma.ch.size() + 1) : (front ? 0 : ma.ch.size());
      // dup: reuse the value of an existing node, so that siblings with equal values (ties for
      // sort, equal keys for ==) but different subtrees occur
      long const id = op.has("dup") ? all[op.getu("dup") % all.size()].m->id : counter++;
      if (op.has("dup"))
        ctx.probe("duplicate_value_inserted");
      sim::Val v(id);
      bool const rv = op.get("rv") != 0;
      Tree *ret = nullptr;
      bool const ok = guarded(n, [&] {
        if (n == "insert_v")
        {
          if (rv)
            ta.insert(child_it(ta, k), std::move(v));
          else
            ta.insert(child_it(ta, k), v);
        }
        else if (front)
          ret = &(rv ? ta.push_front(std::move(v)) : ta.push_front(v)).get();
        else
          ret = &(rv ? ta.push_back(std::move(v)) : ta.push_back(v)).get();
      });
      if (ok)
      {
        auto m = std::make_unique<M>();
        m->id = id;
        m->parent = &ma;
        ma.ch.insert(ma.ch.begin() + static_cast<std::ptrdiff_t>(k), std::move(m));
        if (ret != nullptr)
          SIM_CHECK(ret == &*child_it(ta, k) && ret->value().id() == id, "returned-reference", n + " must return the new child");
      }
      else
        after_fault({a.slot}, n);
      ctx.ev(n + " at " + std::to_string(ma.id) + " k=" + std::to_string(k) + " id=" + std::to_string(id) + (ok ? "" : " threw"));
      if (!ok)
        return; // (the model was re-synchronised: `ma` is no longer the live model node)
      }
      return;
    }
    if (n == "push_copy" || n == "insert_copy")
    {
      // a deep copy of any node's subtree becomes a new child of a
      Pair const b = all[op.getu("src") % all.size()];
      if (total_nodes() + mcount(*b.m) > MAX_NODES)
        return;
      bool const front = op.get("front") != 0;
      std::size_t const k = n == "insert_copy" ? op.getu("k") % (ma.ch.size() + 1) : (front ? 0 : ma.ch.size());
      std::unique_ptr<M> mc = mcopy(*b.m);
      bool const ok = guarded(n, [&] {
        Tree tmp(static_cast<Tree const &>(*b.t));
        if (n == "insert_copy")
          ta.insert(child_it(ta, k), std::move(tmp));
        else if (front)
          ta.push_front(std::move(tmp));
        else
          ta.push_back(std::move(tmp));
      });
      if (ok)
      {
        mc->parent = &ma;
        ma.ch.insert(ma.ch.begin() + static_cast<std::ptrdiff_t>(k), std::move(mc));
        ctx.probe("subtree_copied_into_tree");
      }
      else
        after_fault({a.slot}, n);
      ctx.ev(n + " at " + std::to_string(ma.id) + " k=" + std::to_string(k) + " src=" + std::to_string(b.m->id) + (ok ? "" : " threw"));
      return;
    }
    if (n == "push_root")
    {
      // the root of another slot is moved in as a child of a
      std::vector<unsigned> occ;
      for (unsigned s = 0; s < SLOTS; ++s)
        if (sut[s] && s != a.slot)
          occ.push_back(s);
      if (occ.empty())
        return;
      unsigned const s = occ[op.getu("slot") % occ.size()];
      bool const front = op.get("front") != 0;
      std::size_t const k = front ? 0 : ma.ch.size();
      bool const ok = guarded(n, [&] {
        if (front)
          ta.push_front(std::move(*sut[s]));
        else
          ta.push_back(std::move(*sut[s]));
      });
      if (ok)
      {
        // the moved-from root must be a valid, childless root
        {
          // the moved-from root is only required to be a valid tree
          unsigned budget_mf = 4 * MAX_NODES;
          check_links(*sut[s], nullptr, n + " moved-from source", budget_mf);
        }
        nothrow(n, [&] { sut[s].reset(); });
        model[s]->parent = &ma;
        ma.ch.insert(ma.ch.begin() + static_cast<std::ptrdiff_t>(k), std::move(model[s]));
        model[s].reset();
        ctx.probe("root_moved_into_tree");
      }
      else
      {
        // basic guarantee: a failing push may already have moved from its rvalue argument; such a
        // source is consumed (valid, but its value is gone) and is destroyed here
        if (sut[s]->value().moved_from())
        {
          unsigned budget_mf = 4 * MAX_NODES;
          check_links(*sut[s], nullptr, n + " moved-from source", budget_mf);
          nothrow(n, [&] { sut[s].reset(); });
          graveyard.push_back(std::move(model[s]));
          ctx.probe("failed_push_consumed_its_argument");
          after_fault({a.slot}, n);
        }
        else
          after_fault({a.slot, s}, n);
      }
      ctx.ev(n + " at " + std::to_string(ma.id) + " from slot" + std::to_string(s) + (ok ? "" : " threw"));
      return;
    }
    if (n == "pop" || n == "release")
    {
      if (ma.ch.empty() && n == "release")
        return;
      bool const front = op.get("front") != 0;
      std::size_t const k = n == "release" ? op.getu("k") % ma.ch.size() : (front ? 0 : (ma.ch.empty() ? 0 : ma.ch.size() - 1));
      int const fs = op.get("keep") != 0 ? free_slot() : -1;
      std::unique_ptr<Tree> got;
      bool nothing = false;
      bool const ok = guarded(n, [&] {
        if (n == "release")
          got = make_tree(ta.release(child_it(ta, k)));
        else
        {
          Tree::optional_object r = front ? ta.pop_front() : ta.pop_back();
          if (r.has_value())
            got = make_tree(std::move(r.get_unsafe()));
          else
            nothing = true;
        }
      });
      if (ok)
      {
        if (ma.ch.empty())
        {
          SIM_CHECK(nothing, "pop-on-empty", n + " of a childless node must return nothing");
          ctx.probe("pop_on_childless");
        }
        else
        {
          SIM_CHECK(!nothing && got, "pop-lost-child", n);
          std::unique_ptr<M> mc = std::move(ma.ch[k]);
          ma.ch.erase(ma.ch.begin() + static_cast<std::ptrdiff_t>(k));
          mc->parent = nullptr;
          if (fs >= 0)
          {
            sut[fs] = std::move(got);
            model[fs] = std::move(mc);
            ctx.probe("detached_subtree_kept_as_root");
          }
          else
          {
            unsigned budget = 4 * MAX_NODES;
            check_links(*got, nullptr, n + " result", budget);
            check_same(*got, *mc, n + " result");
            nothrow(n, [&] { got.reset(); });
          }
        }
      }
      else
        after_fault({a.slot}, n);
      ctx.ev(n + " at " + std::to_string(ma.id) + " k=" + std::to_string(k) + (ok ? "" : " threw"));
      return;
    }
    if (n == "erase1")
    {
      if (ma.ch.empty())
        return;
      std::size_t const k = op.getu("k") % ma.ch.size();
      nothrow(n, [&] { ta.erase(child_it(ta, k)); });
      ma.ch.erase(ma.ch.begin() + static_cast<std::ptrdiff_t>(k));
      ctx.ev("erase1 at " + std::to_string(ma.id) + " k=" + std::to_string(k));
      return;
    }
    if (n == "erase")
    {
      std::size_t const sz = ma.ch.size();
      std::size_t const f = op.getu("first") % (sz + 1);
      std::size_t const l = f + op.getu("len") % (sz - f + 1);
      nothrow(n, [&] { ta.erase(child_it(ta, f), child_it(ta, l)); });
      ma.ch.erase(ma.ch.begin() + static_cast<std::ptrdiff_t>(f), ma.ch.begin() + static_cast<std::ptrdiff_t>(l));
      ctx.ev("erase at " + std::to_string(ma.id) + " " + std::to_string(f) + ".." + std::to_string(l));
      return;
    }
    if (n == "clear")
    {
      nothrow(n, [&] { ta.clear(); });
      ma.ch.clear();
      ctx.ev("clear at " + std::to_string(ma.id));
      return;
    }
    if (n == "sort")
    {
      if (ma.ch.size() > 16)
        ctx.probe("sort_of_more_than_16_children");
      {
        bool ties = false;
        for (std::size_t x = 0; x < ma.ch.size() && !ties; ++x)
          for (std::size_t y = x + 1; y < ma.ch.size(); ++y)
            if (ma.ch[x]->id == ma.ch[y]->id)
            {
              ties = true;
              break;
            }
        if (ties)
          ctx.probe("sort_with_tied_values");
      }
      bool const descending = op.get("pred") != 0;
      bool const ok = guarded(n, [&] {
        if (descending)
          ta.sort([](sim::Val const &x, sim::Val const &y) { return y < x; });
        else
          ta.sort();
      });
      if (ok)
      {
        // the children must come out sorted and be a permutation of what was there; the order of
        // children with EQUAL values is not documented (std::list::sort happens to be stable), so
        // the model takes the order over from the real tree
        std::vector<std::unique_ptr<M>> pool = std::move(ma.ch);
        ma.ch.clear();
        SIM_CHECK(ta.size() == pool.size(), "shape", "sort changed the number of children of node " + std::to_string(ma.id));
        long prev = 0;
        bool first = true;
        for (Tree const &c : static_cast<Tree const &>(ta))
        {
          long const id = c.value().id();
          SIM_CHECK(first || (descending ? id <= prev : id >= prev), "sort-order", "children of node " + std::to_string(ma.id) + " are not sorted after sort()");
          prev = id;
          first = false;
          std::unique_ptr<M> now = mfrom(c);
          bool matched = false;
          for (auto &cand : pool)
            if (cand && mequal(*cand, *now))
            {
              ma.ch.push_back(std::move(cand));
              matched = true;
              break;
            }
          SIM_CHECK(matched, "shape", "after sort() node " + std::to_string(ma.id) + " has a child (value " + std::to_string(id) + ") that was not there before with that subtree");
        }
        for (auto &x : ma.ch)
          x->parent = &ma;
      }
      else
        after_fault({a.slot}, n);
      ctx.ev("sort at " + std::to_string(ma.id));
      return;
    }
    if (n == "value")
    {
      long const id = counter++;
      sim::Val v(id);
      bool const ok = guarded(n, [&] {
        if (op.get("rv") != 0)
          ta.value(std::move(v));
        else
          ta.value(v);
      });
      if (ok)
        ma.id = id;
      else
        after_fault({a.slot}, n);
      ctx.ev("value at node -> " + std::to_string(id) + (ok ? "" : " threw"));
      return;
    }
    if (n == "swap")
    {
      Pair const b = all[op.getu("other") % all.size()];
      if (a.t == b.t || related(a.m, b.m))
        return;
      if (a.m->parent != nullptr || b.m->parent != nullptr)
        ctx.probe("swap_involving_inner_node");
      if (!a.m->ch.empty() || !b.m->ch.empty())
        ctx.probe("swap_with_children");
      bool const ok = guarded(n, [&] {
        if (op.get("free") != 0)
        {
          using std::swap;
          swap(ta, *b.t);
        }
        else
          ta.swap(*b.t);
      });
      if (ok)
      {
        std::swap(a.m->id, b.m->id);
        a.m->ch.swap(b.m->ch);
        for (auto &c : a.m->ch)
          c->parent = a.m;
        for (auto &c : b.m->ch)
          c->parent = b.m;
      }
      else
        after_fault({a.slot, b.slot}, n);
      ctx.ev("swap " + std::to_string(a.m->id) + " " + std::to_string(b.m->id));
      return;
    }
    if (n == "copy_ctor")
    {
      int const fs = free_slot();
      if (fs < 0 || total_nodes() + mcount(ma) > MAX_NODES)
        return;
      bool const ok = guarded(n, [&] { sut[fs] = make_tree(static_cast<Tree const &>(ta)); });
      if (ok)
      {
        model[fs] = mcopy(ma);
        if (ma.parent != nullptr)
          ctx.probe("copy_of_inner_node");
      }
      else
        SIM_CHECK(!sut[fs], "ctor-threw-but-object-exists", n);
      ctx.ev("copy_ctor of " + std::to_string(ma.id) + " -> slot" + std::to_string(fs) + (ok ? "" : " threw"));
      return;
    }
    if (n == "move_ctor")
    {
      // a root is moved into a new root; the moved-from root is destroyed afterwards
      int const fs = free_slot();
      if (fs < 0)
        return;
      unsigned const s = a.slot;
      bool const ok = guarded(n, [&] { sut[fs] = make_tree(std::move(*sut[s])); });
      if (!ok)
      {
        SIM_CHECK(!sut[fs], "ctor-threw-but-object-exists", n);
        after_fault({s}, n);
        ctx.ev("move_ctor threw");
        return;
      }
      {
        unsigned budget_mf = 4 * MAX_NODES;
        check_links(*sut[s], nullptr, n + " moved-from source", budget_mf);
      }
      nothrow(n, [&] { sut[s].reset(); });
      model[fs] = std::move(model[s]);
      model[s].reset();
      ctx.ev("move_ctor slot" + std::to_string(s) + " -> slot" + std::to_string(fs));
      return;
    }
    if (n == "move_ctor_node")
    {
      // move construction from ANY node (also an inner one): the new tree is a root; the source
      // stays where it is, childless, and is given a fresh value afterwards
      int const fs = free_slot();
      if (fs < 0)
        return;
      long const aid = ma.id;
      bool const ok = guarded(n, [&] { sut[fs] = make_tree(std::move(ta)); });
      if (!ok)
      {
        SIM_CHECK(!sut[fs], "ctor-threw-but-object-exists", n);
        after_fault({a.slot}, n);
        ctx.ev("move_ctor_node threw");
        return;
      }
      long const fresh = counter++;
      sim::Val v(fresh);
      nothrow(n, [&] { ta.value(std::move(v)); });
      if (ta.empty())
      {
        model[fs] = std::make_unique<M>();
        model[fs]->id = aid;
        model[fs]->ch = std::move(ma.ch);
        for (auto &x : model[fs]->ch)
          x->parent = model[fs].get();
        ma.ch.clear();
      }
      else
      {
        // an implementation that copies leaves the source's children in place
        model[fs] = mcopy(ma);
        ctx.probe("moved_from_node_kept_children");
      }
      ma.id = fresh;
      ctx.probe(ma.parent != nullptr ? "move_ctor_from_inner_node" : "move_ctor_from_root_kept");
      ctx.ev("move_ctor_node " + std::to_string(aid) + " -> slot" + std::to_string(fs));
      return;
    }
    if (n == "copy_assign")
    {
      Pair const b = all[op.getu("other") % all.size()];
      bool const self = a.t == b.t;
      // the source may be a strict descendant of the target (the copy is complete before the old
      // children die); a source that is an ancestor of the target has no meaning
      bool const from_descendant = !self && strict_descendant(b.m, a.m);
      if (!self && related(a.m, b.m) && !from_descendant)
        return;
      if (from_descendant)
        ctx.probe("copy_assign_from_own_descendant");
      if (total_nodes() + mcount(*b.m) > MAX_NODES + mcount(ma))
        return;
      if (self)
        ctx.probe("self_copy_assign");
      if (a.m->parent != nullptr)
        ctx.probe("assign_to_inner_node");
      long const aid = a.m->id;
      long const bid = b.m->id;
      bool const ok = guarded(n, [&] { ta = static_cast<Tree const &>(*b.t); });
      if (ok)
      {
        if (!self)
        {
          std::unique_ptr<M> c = mcopy(*b.m);
          a.m->id = c->id;
          a.m->ch = std::move(c->ch);
          for (auto &x : a.m->ch)
            x->parent = a.m;
        }
      }
      else
        after_fault({a.slot}, n);
      ctx.ev("copy_assign " + std::to_string(aid) + " = " + std::to_string(bid) + (ok ? "" : " threw"));
      return;
    }
    if (n == "move_assign")
    {
      // a = std::move(root of another slot)
      std::vector<unsigned> occ;
      for (unsigned s = 0; s < SLOTS; ++s)
        if (sut[s] && s != a.slot)
          occ.push_back(s);
      if (occ.empty())
        return;
      unsigned const s = occ[op.getu("slot") % occ.size()];
      if (a.m->parent != nullptr)
        ctx.probe("assign_to_inner_node");
      nothrow(n, [&] { ta = std::move(*sut[s]); });
      // the moved-from root only has to be valid: destroy it
      {
        unsigned budget = 4 * MAX_NODES;
        check_links(*sut[s], nullptr, n + " moved-from source", budget);
      }
      nothrow(n, [&] { sut[s].reset(); });
      a.m->id = model[s]->id;
      a.m->ch = std::move(model[s]->ch);
      for (auto &x : a.m->ch)
        x->parent = a.m;
      model[s].reset();
      ctx.ev("move_assign " + std::to_string(a.m->id) + " = root of slot" + std::to_string(s));
      return;
    }
    if (n == "hoist")
    {
      // a = std::move(d) where d is a strict descendant of a: a takes d's value and children, the
      // rest of a's old subtree (including d's shell) dies
      std::vector<Pair> desc;
      for (Pair const &p : all)
        if (strict_descendant(p.m, a.m))
          desc.push_back(p);
      if (desc.empty())
        return;
      Pair const d = desc[op.getu("d") % desc.size()];
      long const aid = a.m->id;
      long const did = d.m->id;
      nothrow(n, [&] { ta = std::move(*d.t); });
      std::vector<std::unique_ptr<M>> newch = std::move(d.m->ch);
      a.m->id = did;
      a.m->ch = std::move(newch);
      for (auto &x : a.m->ch)
        x->parent = a.m;
      ctx.probe(a.m->parent != nullptr ? "hoist_into_inner_node" : "hoist_into_root");
      ctx.ev("hoist " + std::to_string(did) + " into " + std::to_string(aid));
      return;
    }
    if (n == "observe")
    {
      Pair const b = all[op.getu("other") % all.size()];
      Tree const &ca = ta;
      // comparison
      bool eq = false, ne = false;
      bool const cmp_ok = guarded(n, [&] {
        eq = ca == static_cast<Tree const &>(*b.t);
        ne = ca != static_cast<Tree const &>(*b.t);
      });
      SIM_CHECK(!cmp_ok || (eq == mequal(ma, *b.m) && ne == !eq), "comparison", "node " + std::to_string(ma.id) + " vs " + std::to_string(b.m->id));
      // front/back
      {
        auto f = ta.front();
        auto bk = ta.back();
        auto cf = ca.front();
        SIM_CHECK(f.has_value() == !ma.ch.empty() && bk.has_value() == !ma.ch.empty() && cf.has_value() == f.has_value(), "front-back", n);
        if (!ma.ch.empty())
          SIM_CHECK(f.get_unsafe().get().value().id() == ma.ch.front()->id && bk.get_unsafe().get().value().id() == ma.ch.back()->id, "front-back", n);
      }
      // reverse iteration
      {
        std::vector<long> want, got;
        for (auto it = ma.ch.rbegin(); it != ma.ch.rend(); ++it)
          want.push_back((*it)->id);
        for (auto it = ca.rbegin(); it != ca.rend(); ++it)
          got.push_back(it->value().id());
        SIM_CHECK(want == got, "reverse-iteration", n);
      }
      // child_position
      if (ma.parent != nullptr)
      {
        Tree &par = ta.parent().get_unsafe().get();
        auto pos = fcppt::container::tree::child_position(par, ta);
        SIM_CHECK(pos.has_value() && &*pos.get_unsafe() == &ta, "child_position", n);
        std::size_t idx = 0;
        for (auto it = par.begin(); it != pos.get_unsafe(); ++it)
          ++idx;
        SIM_CHECK(ma.parent->ch[idx].get() == &ma, "child_position", n);
      }
      if (a.t != b.t && b.m->parent != &ma)
      {
        auto pos = fcppt::container::tree::child_position(ta, *b.t);
        SIM_CHECK(!pos.has_value(), "child_position", "found a node that is not a child");
      }
      // map
      {
        std::unique_ptr<LTree> mapped;
        bool const ok = guarded(n, [&] {
          mapped = std::make_unique<LTree>(fcppt::container::tree::map<LTree>(ca, [](sim::Val const &v) { return v.id() * 2 + 1; }));
        });
        if (ok)
        {
          std::vector<long> want, got;
          mpre(ma, want);
          for (auto &w : want)
            w = w * 2 + 1;
          LTree const &cm = *mapped;
          for (LTree const &x : fcppt::container::tree::make_pre_order(cm))
          {
            got.push_back(x.value());
            for (LTree const &c : x.children())
              SIM_CHECK(c.parent().has_value() && &c.parent().get_unsafe().get() == &x, "links", "map result");
          }
          SIM_CHECK(want == got && !cm.parent().has_value(), "map", n);
          SIM_CHECK(fcppt::container::tree::depth(cm) == mdepth(ma), "map", n);
          nothrow(n, [&] { mapped.reset(); });
        }
      }
      // const pre_order traversal over the subtree (must not run into the later siblings of its root)
      {
        std::vector<long> want, got;
        mpre(ma, want);
        for (Tree const &x : fcppt::container::tree::make_pre_order(ca))
          got.push_back(x.value().id());
        SIM_CHECK(want == got, "pre_order", "const traversal of the subtree of " + std::to_string(ma.id));
        if (ma.parent != nullptr && ma.parent->ch.back().get() != &ma)
          ctx.probe("subtree_traversal_with_later_siblings");
      }
      // the iterator is a forward iterator: a copy taken in the middle of a traversal and advanced
      // on its own (std::distance, std::next, any multi-pass algorithm) must not disturb the original
      {
        std::vector<long> want, got;
        mpre(ma, want);
        auto const trav = fcppt::container::tree::make_pre_order(ca);
        std::size_t step = 0;
        for (auto it = trav.begin(); it != trav.end() && got.size() <= want.size(); ++it, ++step)
        {
          auto copy = it;
          std::size_t rest = 0;
          for (; copy != trav.end() && rest <= want.size(); ++copy)
            ++rest;
          SIM_CHECK(step < want.size() && rest == want.size() - step, "pre_order", "a copy of the iterator taken after " + std::to_string(step) + " steps reaches the end after " + std::to_string(rest) + " more nodes, the model has " + std::to_string(want.size() - std::min(step, want.size())) + " left (subtree of " + std::to_string(ma.id) + ")");
          auto next = it;
          next++;
          (void)next;
          got.push_back((*it).value().id());
        }
        SIM_CHECK(want == got, "pre_order", "multi-pass traversal of the subtree of " + std::to_string(ma.id) + ": the original iterator was disturbed by its copies");
        ctx.probe("pre_order_multi_pass");
      }
      // mutable pre_order traversal over the subtree
      {
        std::vector<long> want, got;
        mpre(ma, want);
        for (Tree &x : fcppt::container::tree::make_pre_order(ta))
          got.push_back(x.value().id());
        SIM_CHECK(want == got, "pre_order", "subtree of " + std::to_string(ma.id));
      }
      ctx.ev("observe " + std::to_string(ma.id) + " eq=" + std::to_string(eq));
      return;
    }
    sim::violate("harness", "unknown op " + n);
  }

  void run(sim::Plan const &plan)
  {
    long const live0 = sim::heap::live_sut();
    long const vals0 = sim::val_stats().live;
    unsigned effective = 0;
    for (sim::Op const &op : plan.ops)
    {
      sim::fault::begin_op(op);
      if (ctx.trace)
        std::printf("op %s   state: %s\n", op.str().c_str(), state_str().c_str());
      std::uint64_t const ev0 = ctx.events;
      graveyard.clear();
      run_op(op);
      if (ctx.events != ev0)
        ++effective;
      check_forest(op.name);
      ctx.state(state_str());
      ctx.end_op();
    }
    {
      sim::fault::begin_op(sim::Op("teardown"));
      sim::fault::Sut s;
      for (auto &t : sut)
        t.reset();
    }
    for (auto &m : model)
      m.reset();
    SIM_CHECK(sim::val_stats().live == vals0, "leak", "values alive after teardown: " + std::to_string(sim::val_stats().live - vals0));
    SIM_CHECK(sim::heap::live_sut() == live0, "leak", "heap blocks allocated by the tree still live after teardown: " + std::to_string(sim::heap::live_sut() - live0));
    ctx.nontrivial = effective >= 3;
  }
};
}

namespace prop
{
void warmup() {}

void generate(sim::Rng &rng, sim::Plan &p, bool)
{
  bool const faulty = rng.chance(1, 2);
  if (faulty)
    p.cfg.set("faulty", 1);
  static char const *const names[] = {
      "new_root", "destroy_root", "push_v", "insert_v", "push_copy", "insert_copy", "push_root",
      "pop", "release", "erase1", "erase", "clear", "sort", "value", "swap", "copy_ctor",
      "move_ctor", "move_ctor_node", "copy_assign", "move_assign", "hoist", "observe"};
  std::vector<std::string> bag;
  for (auto const *o : names)
  {
    std::string const n = o;
    unsigned w = static_cast<unsigned>(rng.below(4));
    if (n == "push_v" || n == "insert_v")
      w += 3;
    if (n == "push_copy" || n == "new_root")
      w += 1;
    if (n == "clear" || n == "destroy_root" || n == "erase")
      w = std::min(w, 1U);
    for (unsigned i = 0; i < w; ++i)
      bag.push_back(n);
  }
  unsigned const len = static_cast<unsigned>(rng.range(1, 40));
  unsigned const fault_pct = faulty ? static_cast<unsigned>(rng.range(2, 20)) : 0;
  // swarm: "wide" runs grow one node to many children with tied values and sort it
  bool const wide = rng.chance(1, 6);
  unsigned const dup_pct = wide ? 40 : static_cast<unsigned>(rng.below(20));
  if (wide)
  {
    bag.clear();
    for (unsigned i = 0; i < 12; ++i)
      bag.push_back(i % 2 == 0 ? "push_v" : "insert_v");
    bag.push_back("sort");
    bag.push_back("sort");
    bag.push_back("push_copy");
    bag.push_back("observe");
    bag.push_back("erase1");
  }
  p.ops.push_back(sim::Op("new_root").set("rv", static_cast<long>(rng.below(2))));
  for (unsigned i = 0; i < len; ++i)
  {
    sim::Op op(rng.pick(bag));
    std::string const &n = op.name;
    op.set("node", wide && rng.chance(3, 4) ? 0L : static_cast<long>(rng.below(64)));
    if ((n == "push_v" || n == "insert_v") && rng.below(100) < dup_pct)
      op.set("dup", static_cast<long>(rng.below(64)));
    if ((n == "push_v" || n == "insert_v") && wide && rng.chance(1, 3))
      op.set("rep", static_cast<long>(rng.range(8, 39)));
    if (n == "new_root" || n == "push_v" || n == "insert_v" || n == "value")
      op.set("rv", static_cast<long>(rng.below(2)));
    if (n == "push_v" || n == "push_copy" || n == "push_root" || n == "pop")
      op.set("front", static_cast<long>(rng.below(2)));
    if (n == "insert_v" || n == "insert_copy" || n == "release" || n == "erase1")
      op.set("k", static_cast<long>(rng.below(16)));
    if (n == "push_copy" || n == "insert_copy")
      op.set("src", static_cast<long>(rng.below(64)));
    if (n == "push_root" || n == "move_assign" || n == "destroy_root")
      op.set("slot", static_cast<long>(rng.below(8)));
    if (n == "pop" || n == "release")
      op.set("keep", static_cast<long>(rng.below(2)));
    if (n == "erase")
      op.set("first", static_cast<long>(rng.below(16))).set("len", static_cast<long>(rng.below(16)));
    if (n == "sort")
      op.set("pred", static_cast<long>(rng.below(2)));
    if (n == "swap" || n == "copy_assign" || n == "observe")
      op.set("other", static_cast<long>(rng.below(64)));
    if (n == "hoist")
      op.set("d", static_cast<long>(rng.below(64)));
    if (n == "swap")
      op.set("free", static_cast<long>(rng.below(2)));
    if (fault_pct != 0 && rng.below(100) < fault_pct)
    {
      if (rng.chance(1, 2))
        op.sets("fault", "alloc:" + std::to_string(rng.chance(1, 2) ? 1 : rng.range(1, 8)));
      else
        op.sets("fault", "copy:" + std::to_string(rng.chance(1, 2) ? 1 : rng.range(1, 6)));
    }
    p.ops.push_back(op);
  }
}

void execute(sim::Plan const &p, sim::Ctx &ctx)
{
  World w(ctx);
  w.run(p);
}
}

int main(int argc, char **argv) { return sim::sim_main(argc, argv); }
