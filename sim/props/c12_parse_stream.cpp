// C12: the parse stream reports true line/column and rewinds exactly, for every interleaving of
//      reads and position restores, over a simulated stream buffer (chunked refills, failing
//      refills, failing seeks, truncation) and over real stringbuf / filebuf.
#include <fcppt/make_ref.hpp>
#include <fcppt/reference_to_base.hpp>
#include <fcppt/unit.hpp>
#include <fcppt/either/object.hpp>
#include <fcppt/optional/object.hpp>
#include <fcppt/parse/basic_char.hpp>
#include <fcppt/parse/basic_char_set.hpp>
#include <fcppt/parse/basic_literal.hpp>
#include <fcppt/parse/basic_string.hpp>
#include <fcppt/parse/basic_stream_impl.hpp>
#include <fcppt/parse/error.hpp>
#include <fcppt/parse/get_char.hpp>
#include <fcppt/parse/get_position.hpp>
#include <fcppt/parse/make_fatal.hpp>
#include <fcppt/parse/phrase_parse.hpp>
#include <fcppt/parse/phrase_parse_stream.hpp>
#include <fcppt/parse/position.hpp>
#include <fcppt/parse/set_position.hpp>
#include <fcppt/parse/detail/exception.hpp>
#include <fcppt/parse/detail/stream_impl.hpp>
#include <fcppt/parse/operators/alternative.hpp>
#include <fcppt/parse/operators/complement.hpp>
#include <fcppt/parse/operators/not.hpp>
#include <fcppt/parse/operators/optional.hpp>
#include <fcppt/parse/operators/repetition.hpp>
#include <fcppt/parse/operators/repetition_plus.hpp>
#include <fcppt/parse/operators/sequence.hpp>
#include <fcppt/parse/space_set.hpp>
#include <fcppt/parse/skipper/basic_char_set.hpp>
#include <fcppt/parse/skipper/operators/repetition.hpp>
#include <fcppt/parse/skipper/epsilon.hpp>
#include <fcppt/tuple/object.hpp>
#include <fcppt/variant/object.hpp>
#include <cstdio>
#include <fstream>
#include <memory>
#include <sstream>
#include <string>
#include <tuple>
#include <unistd.h>
#include <variant>
#include <vector>
#include "core/main.hpp"
#include "seams/streambuf.hpp"
#include "c12_common.hpp"

namespace prop
{
char const *const id = "C12";
}

namespace
{
constexpr unsigned SLOTS = 4;

std::string scratch_file()
{
  char const *d = std::getenv("SIM_TMP");
  return std::string(d != nullptr ? d : "/tmp") + "/c12." + std::to_string(::getpid()) + ".txt";
}

template <typename Ch>
struct World
{
  using string = std::basic_string<Ch>;
  using stream_t = fcppt::parse::detail::stream<Ch>;
  using position_t = fcppt::parse::position<Ch>;
  using exception_t = fcppt::parse::detail::exception<Ch>;

  sim::Ctx &ctx;
  string text; // what exists for the reader (already truncated)
  std::size_t i = 0;
  bool read_error = false; // a refill has thrown: the istream is bad for good
  bool failed = false;     // a seek failed: failbit set until the next successful set_position
  bool dead = false;       // state no longer tracked (after a faulted compound parse)

  std::unique_ptr<sim::StreamBuf<Ch>> sb;
  std::unique_ptr<std::basic_streambuf<Ch>> real_buf;
  std::unique_ptr<std::basic_istream<Ch>> is;
  std::unique_ptr<stream_t> stream;
  std::optional<position_t> saved[SLOTS];
  std::size_t saved_index[SLOTS] = {};

  explicit World(sim::Ctx &c) : ctx(c) {}

  std::pair<std::uint64_t, std::uint64_t> loc(std::size_t idx) const
  {
    std::uint64_t line = 1;
    std::ptrdiff_t last_nl = -1;
    for (std::size_t k = 0; k < idx; ++k)
      if (text[k] == Ch('\n'))
      {
        ++line;
        last_nl = static_cast<std::ptrdiff_t>(k);
      }
    return {line, static_cast<std::uint64_t>(static_cast<std::ptrdiff_t>(idx) - last_nl)};
  }

  // stream offset of character index idx: the index itself, except for a wide file stream with a
  // variable-width encoding, whose positions count bytes of the file
  std::vector<std::size_t> byte_off;
  std::size_t stream_off(std::size_t idx) const { return byte_off.empty() ? idx : byte_off[std::min(idx, byte_off.size() - 1)]; }

  void check_position(position_t const &p, std::size_t idx, std::string const &when)
  {
    std::streamoff const off = std::streamoff(p.pos());
    SIM_CHECK(off == static_cast<std::streamoff>(stream_off(idx)), "offset", when + ": position offset " + std::to_string(off) + ", next unread character (index " + std::to_string(idx) + ") is at " + std::to_string(stream_off(idx)));
    SIM_CHECK(p.location().has_value(), "location", when + ": position without location");
    auto const want = loc(idx);
    auto const &l = p.location().get_unsafe();
    SIM_CHECK(l.line().get() == want.first && l.column().get() == want.second, "location",
              when + ": at offset " + std::to_string(idx) + " the stream reports " + std::to_string(l.line().get()) + ":" + std::to_string(l.column().get()) + ", true location is " + std::to_string(want.first) + ":" + std::to_string(want.second));
  }

  // a read error has happened: the simulated buffer threw, or an injected allocation failure struck
  // inside the standard stream itself (a file buffer allocating its buffers; the istream swallows
  // the exception and sets badbit) - for the code under test both are a stream that went bad
  bool fault_now() const { return (sb && sb->threw()) || (sim::fault::fired(sim::fault::alloc) && is && is->bad()); }

  // Outcome of a SUT call: value / nothing-like / parse exception
  template <typename F>
  bool call(std::string const &n, F &&f)
  {
    // returns true if f returned, false if it threw the (documented) parse exception
    try
    {
      sim::fault::Sut s;
      f();
      return true;
    }
    catch (exception_t const &e)
    {
      ctx.probe("parse_exception");
      (void)e;
      return false;
    }
    catch (std::bad_alloc const &)
    {
      // an injected allocation failure is reported as itself; how far the operation got is not
      // known, so the history ends here (see the run loop)
      SIM_CHECK(sim::fault::fired(sim::fault::alloc), "undocumented-exception", n + ": bad_alloc without an injected allocation failure");
      throw AllocAbort{};
    }
  }
  struct AllocAbort
  {
  };

  void op_get(std::string const &n)
  {
    fcppt::optional::object<Ch> r;
    bool const returned = call(n, [&] { r = stream->get_char(); });
    if (fault_now())
      read_error = true;
    if (read_error)
    {
      SIM_CHECK(!returned || !r.has_value(), "character-after-read-error", "get_char returned a character although the underlying stream has failed");
      ctx.probe("get_after_read_error");
      ctx.ev("get -> failure (stream failed)");
      return;
    }
    if (failed)
    {
      // fail state after a failed seek: failure, or (not with this implementation) the true character
      if (returned && r.has_value())
      {
        SIM_CHECK(i < text.size() && r.get_unsafe() == text[i], "wrong-character", "after a failed seek get_char returned a character that is not the next one");
        ++i;
      }
      ctx.probe("get_in_fail_state");
      ctx.ev("get in fail state");
      return;
    }
    if (sim::fault::any_fired())
    {
      // a fault of another kind (failing seek/tell/sync inside get_char, possible only for an
      // implementation that makes such calls there): failure or the true character, then the
      // stream state is no longer tracked
      if (returned && r.has_value())
        SIM_CHECK(i < text.size() && r.get_unsafe() == text[i], "wrong-character", "get_char returned a character that is not the next one");
      dead = true;
      ctx.ev("get under a non-read fault");
      return;
    }
    SIM_CHECK(returned, "undocumented-exception", "get_char threw although nothing failed");
    if (i < text.size())
    {
      SIM_CHECK(r.has_value(), "spurious-end", "get_char returned nothing at offset " + std::to_string(i) + " of " + std::to_string(text.size()));
      SIM_CHECK(r.get_unsafe() == text[i], "wrong-character", "get_char returned " + std::to_string(static_cast<long>(r.get_unsafe())) + " at offset " + std::to_string(i) + ", text has " + std::to_string(static_cast<long>(text[i])));
      if (text[i] == Ch('\n'))
        ctx.probe("read_newline");
      ++i;
      ctx.ev("get -> " + std::to_string(static_cast<long>(r.get_unsafe())));
    }
    else
    {
      SIM_CHECK(!r.has_value(), "character-at-end", "get_char returned a character at the end of input");
      ctx.probe("get_at_end");
      ctx.ev("get -> end");
    }
  }

  void op_pos(std::string const &n, unsigned slot)
  {
    std::optional<position_t> p;
    std::uint64_t const seek_before = sb ? sb->seek_failures() : 0;
    bool const returned = call(n, [&] { p.emplace(stream->get_position()); });
    bool const seek_fault = sb && sb->seek_failures() != seek_before;
    if (read_error)
    {
      SIM_CHECK(!returned, "position-after-read-error", "get_position succeeded although the underlying stream has failed");
      ctx.ev("pos -> exception (stream failed)");
      return;
    }
    if (!returned)
    {
      SIM_CHECK(seek_fault || failed || sim::fault::fired(sim::fault::seek), "undocumented-exception", "get_position threw although nothing failed");
      ctx.probe("tell_failed");
      ctx.ev("pos -> exception");
      return;
    }
    check_position(*p, i, "get_position");
    if (i == text.size())
      ctx.probe("position_at_end");
    saved[slot % SLOTS] = *p;
    saved_index[slot % SLOTS] = i;
    ctx.ev("pos -> " + std::to_string(i));
  }

  void op_set(std::string const &n, unsigned slot)
  {
    if (!saved[slot % SLOTS])
      return;
    position_t const p = *saved[slot % SLOTS];
    std::size_t const target = saved_index[slot % SLOTS];
    std::uint64_t const seek_before = sb ? sb->seek_failures() : 0;
    bool const returned = call(n, [&] { stream->set_position(p); });
    bool const seek_fault = sb && sb->seek_failures() != seek_before;
    if (read_error)
    {
      SIM_CHECK(!returned, "rewind-after-read-error", "set_position succeeded although the underlying stream has failed");
      ctx.ev("set -> exception (stream failed)");
      return;
    }
    if (!returned)
    {
      SIM_CHECK(seek_fault || failed, "undocumented-exception", "set_position threw although no seek failed");
      failed = true;
      ctx.probe("seek_failed");
      ctx.ev("set -> exception");
      return;
    }
    if (seek_fault)
    {
      // a seek/tell failed inside, yet set_position returned: fine if it got there anyway (an
      // implementation may retry or not need that call) - judged by where the stream is now
      std::optional<position_t> now;
      bool ok2 = true;
      try
      {
        now.emplace(stream->get_position());
      }
      catch (exception_t const &)
      {
        ok2 = false;
      }
      SIM_CHECK(ok2 && static_cast<std::size_t>(std::streamoff(now->pos())) == stream_off(target), "seek-failure-ignored", "set_position returned normally although the seek failed and the stream is not at the requested position");
    }
    if (target < i)
    {
      bool crosses = false;
      for (std::size_t k = target; k < i; ++k)
        crosses = crosses || text[k] == Ch('\n');
      ctx.probe(crosses ? "rewind_across_newline" : "rewind_within_line");
      if (i == text.size())
        ctx.probe("rewind_from_end");
    }
    else if (target > i)
      ctx.probe("forward_restore");
    failed = false;
    i = target;
    ctx.ev("set -> " + std::to_string(i));
  }

  // character-level parsers on the live stream: error text carries the location after the
  // offending character
  void op_lit(std::string const &n, unsigned which, bool set)
  {
    if (read_error || failed)
      return;
    static Ch const alphabet[4] = {Ch('a'), Ch('\n'), Ch(' '), Ch('\t')};
    Ch const want = alphabet[which % 4];
    auto ref = fcppt::reference_to_base<fcppt::parse::basic_stream<Ch>>(fcppt::make_ref(*stream));
    std::string res;
    bool matched = false;
    bool const returned = call(n, [&] {
      if (set)
      {
        auto r = fcppt::parse::basic_char_set<Ch>{want, Ch('a')}.parse(ref, fcppt::parse::skipper::epsilon());
        matched = r.has_success();
        res = summarize<Ch>(r);
      }
      else
      {
        auto r = fcppt::parse::basic_literal<Ch>{want}.parse(ref, fcppt::parse::skipper::epsilon());
        matched = r.has_success();
        res = summarize<Ch>(r);
      }
    });
    if (fault_now())
    {
      read_error = true;
      SIM_CHECK(!returned || !matched, "character-after-read-error", "a character-level parser succeeded although the underlying stream has failed");
      ctx.ev(n + " -> failure (stream failed)");
      return;
    }
    if (!returned)
    {
      // get_position inside the error path met a failing tellg
      SIM_CHECK(sim::fault::fired(sim::fault::seek), "undocumented-exception", n + " threw although nothing failed");
      dead = true;
      ctx.ev(n + " -> exception");
      return;
    }
    if (i == text.size())
    {
      SIM_CHECK(!matched, "character-at-end", n + " succeeded at the end of input");
      ctx.ev(n + " at end -> " + res);
      return;
    }
    Ch const got = text[i];
    bool const should = set ? (got == want || got == Ch('a')) : got == want;
    ++i;
    SIM_CHECK(matched == should, "char-parser-result", n + " on character " + std::to_string(static_cast<long>(got)) + ": " + res);
    if (!matched)
    {
      // the message must CARRY the location immediately after the offending character, rendered
      // the way the library renders locations (line:column); its wording is not prescribed
      auto const l = loc(i);
      std::string const token = std::to_string(l.first) + ":" + std::to_string(l.second);
      bool carries = false;
      for (std::size_t at = res.find(token); at != std::string::npos; at = res.find(token, at + 1))
      {
        bool const left_ok = at == 0 || !(res[at - 1] >= '0' && res[at - 1] <= '9');
        bool const right_ok = at + token.size() >= res.size() || !(res[at + token.size()] >= '0' && res[at + token.size()] <= '9');
        if (left_ok && right_ok)
          carries = true;
      }
      SIM_CHECK(carries, "error-location", n + " failed at offset " + std::to_string(i - 1) + "; message '" + res + "' does not carry location " + token + " (immediately after the offending character)");
      ctx.probe(got == Ch('\n') ? "error_after_newline" : "error_location_checked");
    }
    ctx.ev(n + " -> " + (matched ? std::string("match") : res));
  }

  // a compound grammar on the live stream; reference: the same grammar over a real stringbuf
  void op_parse(std::string const &n, unsigned g, unsigned skipper)
  {
    if (read_error || failed)
      return;
    // reference run
    std::string ref_res;
    std::size_t ref_index = 0;
    auto reference = [&](string const &t, std::size_t start, std::string &res, std::size_t &idx) {
      std::basic_istringstream<Ch> rs(t);
      stream_t rstream{fcppt::reference_to_base<std::basic_istream<Ch>>(fcppt::make_ref(rs))};
      for (std::size_t k = 0; k < start && k < t.size(); ++k)
        (void)rstream.get_char();
      res = Grammars<Ch>::run(g, skipper, rstream);
      rs.clear();
      idx = static_cast<std::size_t>(std::streamoff(rs.tellg()));
    };
    reference(text, i, ref_res, ref_index);
    std::string res;
    std::uint64_t const seek_before = sb ? sb->seek_failures() : 0;
    std::size_t const before_i = i;
    bool const returned = call(n, [&] { res = Grammars<Ch>::run(g, skipper, *stream); });
    SIM_CHECK(returned, "undocumented-exception", "phrase_parse let the parse exception escape");
    if (sim::fault::fired(sim::fault::alloc) && res.compare(0, 6, "FATAL:") == 0)
    {
      // phrase_parse is documented to catch exceptions and to return them as a (fatal) error: an
      // injected allocation failure reported that way is as good as a bad_alloc; where the stream
      // stands afterwards is not known, the history ends here
      dead = true;
      ctx.probe("allocation_failure_reported_as_fatal_error");
      ctx.ev(n + " g=" + std::to_string(g) + " -> fatal error after an allocation failure");
      return;
    }
    bool const seek_fault = sb && sb->seek_failures() != seek_before;
    if (fault_now())
    {
      // read error: looks like end of input to the terminals; the result is a failure or what the
      // text up to the error position yields - never data from beyond the error
      read_error = true;
      if (res.compare(0, 2, "S:") == 0)
      {
        std::string tr_res;
        std::size_t tr_index = 0;
        std::size_t const cut = sb ? sb->fault_pos() : before_i; // (a file buffer can only fail at its first refill)
        reference(text.substr(0, cut), before_i, tr_res, tr_index);
        SIM_CHECK(res == tr_res, "data-after-read-error", "grammar " + std::to_string(g) + " succeeded with " + res + " after a read error at offset " + std::to_string(cut) + "; the text before the error yields " + tr_res);
        ctx.probe("success_despite_read_error");
      }
      else
        ctx.probe("parse_failed_by_read_error");
      ctx.ev(n + " g=" + std::to_string(g) + " -> " + res.substr(0, 2) + " (stream failed)");
      return;
    }
    if (seek_fault)
    {
      SIM_CHECK(res.compare(0, 2, "S:") != 0 || res == ref_res, "result-after-seek-failure", "grammar " + std::to_string(g) + ": " + res + " vs reference " + ref_res);
      dead = true;
      ctx.probe("parse_with_seek_failure");
      ctx.ev(n + " -> seek failure");
      return;
    }
    SIM_CHECK(res == ref_res, "grammar-result", "grammar " + std::to_string(g) + " skipper " + std::to_string(skipper % 2) + " from offset " + std::to_string(before_i) + ": stream gives " + res + ", reference (stringbuf) gives " + ref_res);
    // re-synchronise the model with where the parser left the stream, and check that position
    std::optional<position_t> p;
    bool ok = true;
    try
    {
      // observation by the harness: not subject to injected faults
      p.emplace(stream->get_position());
    }
    catch (exception_t const &)
    {
      ok = false;
    }
    SIM_CHECK(ok, "undocumented-exception", "get_position threw after a parse");
    SIM_CHECK(static_cast<std::size_t>(std::streamoff(p->pos())) == stream_off(ref_index), "offset", "after grammar " + std::to_string(g) + " the stream is at " + std::to_string(std::streamoff(p->pos())) + ", the reference at " + std::to_string(stream_off(ref_index)) + " (character " + std::to_string(ref_index) + ")");
    i = ref_index;
    check_position(*p, i, "after grammar");
    ctx.probe(res.compare(0, 2, "S:") == 0 ? "grammar_success" : "grammar_failure");
    ctx.ev(n + " g=" + std::to_string(g) + " -> " + res.substr(0, 40) + " @" + std::to_string(i));
  }

  void run(sim::Plan const &plan)
  {
    std::string const dec = decode_text(plan.cfg.gets("text", "_"));
    string full;
    for (char c : dec)
    {
      unsigned char const u = static_cast<unsigned char>(c);
      // wide streams get characters beyond one byte: U+20AC, and U+010A whose LOW byte is '\n'
      full.push_back(sizeof(Ch) > 1 && u == 0xE9 ? static_cast<Ch>(0x20AC) : sizeof(Ch) > 1 && u == 0xFF ? static_cast<Ch>(0xFF) : sizeof(Ch) > 1 && u == 0x01 ? static_cast<Ch>(0x010A) : static_cast<Ch>(c));
    }
    long const trunc = plan.cfg.get("trunc", -1);
    text = trunc >= 0 && static_cast<std::size_t>(trunc) < full.size() ? full.substr(0, static_cast<std::size_t>(trunc)) : full;
    if (text.size() != full.size())
      ctx.probe("truncated_file");
    unsigned const backend = static_cast<unsigned>(plan.cfg.getu("backend") % 4);
    std::size_t const chunk = plan.cfg.getu("chunk") % 9;
    std::string path;
    if (backend == 0)
    {
      sb = std::make_unique<sim::StreamBuf<Ch>>(full, chunk);
      if (trunc >= 0)
        sb->visible(static_cast<std::size_t>(trunc));
      // half of the runs: a stream buffer without put-back support (seekable all the same)
      sb->putback(plan.cfg.get("pback", 1) != 0);
      if (plan.cfg.get("pback", 1) == 0)
        ctx.probe("stream_buffer_without_putback");
      is = std::make_unique<std::basic_istream<Ch>>(sb.get());
    }
    else if (backend == 1)
    {
      is = std::make_unique<std::basic_istringstream<Ch>>(text);
      ctx.probe("backend_stringbuf");
    }
    else if (backend == 3 && sizeof(Ch) > 1)
    {
      // a UTF-8 text file read through a wide file stream: stream positions count BYTES, so the
      // offset of a character is not its index
      path = scratch_file();
      {
        std::ofstream out(path, std::ios::binary | std::ios::trunc);
        byte_off.clear();
        std::size_t bytes = 0;
        for (Ch c : text)
        {
          byte_off.push_back(bytes);
          unsigned long const u = static_cast<unsigned long>(c);
          if (u < 0x80)
          {
            out.put(static_cast<char>(u));
            bytes += 1;
          }
          else if (u < 0x800)
          {
            out.put(static_cast<char>(0xC0 | (u >> 6)));
            out.put(static_cast<char>(0x80 | (u & 0x3F)));
            bytes += 2;
          }
          else
          {
            out.put(static_cast<char>(0xE0 | (u >> 12)));
            out.put(static_cast<char>(0x80 | ((u >> 6) & 0x3F)));
            out.put(static_cast<char>(0x80 | (u & 0x3F)));
            bytes += 3;
          }
        }
        byte_off.push_back(bytes);
        out.flush();
        if (!out.good())
          sim::violate("harness", "cannot write the scratch file " + path);
      }
      auto f = std::make_unique<std::basic_ifstream<Ch>>();
      static std::locale const utf8("C.utf8");
      f->imbue(utf8);
      f->open(path, std::ios::binary);
      if (!f->is_open())
        sim::violate("harness", "cannot open the scratch file " + path);
      is = std::move(f);
      ctx.probe("backend_wide_utf8_filebuf");
    }
    else
    {
      path = scratch_file();
      {
        std::ofstream out(path, std::ios::binary | std::ios::trunc);
        for (Ch c : text)
          out.put(static_cast<char>(c));
        out.flush();
        if (!out.good())
          sim::violate("harness", "cannot write the scratch file " + path);
      }
      {
        auto f = std::make_unique<std::basic_ifstream<Ch>>(path, std::ios::binary);
        if (!f->is_open())
          sim::violate("harness", "cannot open the scratch file " + path);
        is = std::move(f);
      }
      ctx.probe("backend_filebuf");
    }
    stream = std::make_unique<stream_t>(fcppt::reference_to_base<std::basic_istream<Ch>>(fcppt::make_ref(*is)));
    // `af`: allocations the parse code makes are fault sites in this run (`alloc:k` on an operation:
    // its k-th allocation throws)
    sim::fault::st().alloc_off = plan.cfg.get("af") == 0;
    unsigned effective = 0;
    for (sim::Op const &op : plan.ops)
    {
      {
        // stream faults need the simulated stream buffer; allocation failures do not
        sim::Op armed(op.name);
        if (backend == 0 || op.gets("fault").compare(0, 6, "alloc:") == 0)
          armed = op;
        sim::fault::begin_op(armed);
      }
      if (ctx.trace)
        std::printf("op %s   offset=%zu%s%s\n", op.str().c_str(), i, read_error ? " read_error" : "", failed ? " failed" : "");
      std::uint64_t const ev0 = ctx.events;
      if (!dead)
      try
      {
        if (op.name == "get")
          op_get(op.name);
        else if (op.name == "pos")
          op_pos(op.name, static_cast<unsigned>(op.getu("slot")));
        else if (op.name == "set")
          op_set(op.name, static_cast<unsigned>(op.getu("slot")));
        else if (op.name == "lit" || op.name == "cset")
          op_lit(op.name, static_cast<unsigned>(op.getu("c")), op.name == "cset");
        else if (op.name == "parse")
          op_parse(op.name, static_cast<unsigned>(op.getu("g")), static_cast<unsigned>(op.getu("sk")));
        else
          sim::violate("harness", "unknown op " + op.name);
      }
      catch (AllocAbort const &)
      {
        dead = true;
        ctx.probe("op_interrupted_by_bad_alloc");
        ctx.ev(op.name + " -> bad_alloc");
      }
      if (ctx.events != ev0)
        ++effective;
      ctx.state(plan.cfg.gets("text") + "@" + std::to_string(i) + (read_error ? "E" : "") + (failed ? "F" : "") + (dead ? "D" : ""));
      ctx.end_op();
    }
    sim::fault::st().alloc_off = true;
    stream.reset();
    is.reset();
    if (!path.empty())
      std::remove(path.c_str());
    ctx.nontrivial = effective >= 3;
  }
};
}

namespace prop
{
void warmup() {}

void generate(sim::Rng &rng, sim::Plan &p, bool thorough)
{
  p.cfg.set("ch", static_cast<long>(rng.below(2)));
  unsigned const b = static_cast<unsigned>(rng.below(11));
  // 0 simulated stream buffer, 1 stringbuf, 2 filebuf (one byte per character), 3 wide filebuf
  // over a UTF-8 file (wchar_t only; a char stream takes the plain filebuf)
  unsigned const backend = b < 7 ? 0 : (b < 9 ? 1 : (b < 10 || p.cfg.getu("ch") % 2 == 0 ? 2 : 3));
  p.cfg.set("backend", static_cast<long>(backend));
  static unsigned const chunks[] = {0, 1, 2, 3, 7, 1, 2};
  p.cfg.set("chunk", static_cast<long>(chunks[rng.below(7)]));
  if (backend == 0 && rng.chance(1, 2))
    p.cfg.set("pback", 0);
  unsigned const len = static_cast<unsigned>(rng.below(thorough ? 40 : 25));
  unsigned const nl_weight = static_cast<unsigned>(rng.range(1, 5));
  std::string text;
  for (unsigned k = 0; k < len; ++k)
  {
    unsigned const r = static_cast<unsigned>(rng.below(6 + nl_weight));
    // rarely: carriage return, a character >= 0x80 (sign extension), NUL
    if (backend == 3 ? rng.chance(1, 4) : (backend != 2 && rng.chance(1, 25)))
      text.push_back("RXYZW"[rng.below(5)]);
    else
      text.push_back(r < 3 ? 'a' : r < 4 ? 'S' : r < 5 ? 'T' : 'N');
  }
  p.cfg.sets("text", text.empty() ? "_" : text);
  bool const faulty = backend == 0 && rng.chance(1, 2);
  if (faulty)
    p.cfg.set("faulty", 1);
  if (faulty && rng.chance(1, 3))
    p.cfg.set("trunc", static_cast<long>(rng.below(len + 1)));
  bool const alloc_faults = rng.chance(1, 4);
  if (alloc_faults)
    p.cfg.set("af", 1).set("faulty", 1);
  unsigned const nops = static_cast<unsigned>(rng.range(1, 40));
  unsigned const fault_pct = faulty ? static_cast<unsigned>(rng.range(1, 12)) : 0;
  unsigned const w_parse = static_cast<unsigned>(rng.below(3));
  unsigned const w_set = static_cast<unsigned>(rng.range(1, 4));
  for (unsigned k = 0; k < nops; ++k)
  {
    unsigned const r = static_cast<unsigned>(rng.below(8 + w_set + w_parse + 2));
    sim::Op op;
    if (r < 5)
      op = sim::Op("get");
    else if (r < 8)
      op = sim::Op("pos").set("slot", static_cast<long>(rng.below(SLOTS)));
    else if (r < 8 + w_set)
      op = sim::Op("set").set("slot", static_cast<long>(rng.below(SLOTS)));
    else if (r < 8 + w_set + w_parse)
      op = sim::Op("parse").set("g", static_cast<long>(rng.below(9))).set("sk", static_cast<long>(rng.below(2)));
    else
      op = sim::Op(rng.chance(1, 2) ? "lit" : "cset").set("c", static_cast<long>(rng.below(4)));
    if (alloc_faults && rng.chance(1, 6))
      op.sets("fault", "alloc:" + std::to_string(rng.range(1, 6)));
    else if (fault_pct != 0 && rng.below(100) < fault_pct)
    {
      if (op.name == "pos" || op.name == "set" || (op.name == "parse" && rng.chance(1, 2)))
        op.sets("fault", "seek:" + std::to_string(rng.range(1, 3)));
      else
        op.sets("fault", "underflow:" + std::to_string(rng.range(1, 3)));
    }
    p.ops.push_back(op);
  }
}

void execute(sim::Plan const &p, sim::Ctx &ctx)
{
  if (p.cfg.getu("ch") % 2 == 0)
  {
    World<char> w(ctx);
    w.run(p);
  }
  else
  {
    World<wchar_t> w(ctx);
    w.run(p);
  }
}
}

int main(int argc, char **argv) { return sim::sim_main(argc, argv); }
