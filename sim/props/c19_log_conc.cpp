// C19 (b): several threads call set/get and create log objects on one context concurrently:
//      no data race, and every observed level is one some sequential ordering would produce.
// Threads are fibers under the seeded scheduler of seams/fiber_sched.cpp; ThreadSanitizer (fiber
// API, no-sync switches) is the race monitor; the recorded history is checked for
// linearizability against the "latest prefix set wins" model.
#include <fcppt/make_ref.hpp>
#include <fcppt/enum/array_init.hpp>
#include <fcppt/log/context.hpp>
#include <fcppt/log/context_reference.hpp>
#include <fcppt/log/level.hpp>
#include <fcppt/log/level_stream.hpp>
#include <fcppt/log/level_stream_array.hpp>
#include <fcppt/log/location.hpp>
#include <fcppt/log/name.hpp>
#include <fcppt/log/object.hpp>
#include <fcppt/log/optional_level.hpp>
#include <fcppt/log/out.hpp>
#include <fcppt/log/parameters.hpp>
#include <fcppt/log/detail/temporary_output.hpp>
#include <fcppt/log/format/default_level.hpp>
#include <fcppt/log/format/optional_function.hpp>
#include <functional>
#include <memory>
#include <set>
#include <sstream>
#include <string>
#include <vector>
#include "c19_common.hpp"
#include "core/main.hpp"
#include "seams/fiber_sched.hpp"

namespace prop
{
char const *const id = "C19-conc";
}

namespace
{
using namespace c19;
constexpr unsigned MAX_FIBERS = 6;
constexpr unsigned PRELUDE = 9; // value of t for operations of the sequential prelude

enum class Kind
{
  set,
  get,
  create,
  level,
  enabled,
  none
};

struct OpInfo
{
  Kind kind = Kind::none;
  std::vector<unsigned> path;
  int arg = 0;      // level to set / level asked for in enabled()
  long result = 0;  // observed
  std::uint64_t inv = 0, ret = 0;
  bool executed = false;
  bool failed = false; // interrupted by an injected allocation failure
};

struct FiberState
{
  std::vector<sim::Op> ops;
  std::vector<OpInfo> info;
  std::vector<std::unique_ptr<fcppt::log::object>> objs;
  std::vector<std::vector<unsigned>> obj_paths;
};

// ---- linearizability (WGL-style search, memoised on (done set, model state))
struct LOp
{
  std::uint64_t inv, ret;
  Kind kind;
  std::vector<unsigned> path;
  int arg;
  long result;
};

struct Lin
{
  std::vector<LOp> ops;
  Model final_state;
  bool check_final = false;
  std::set<std::pair<std::uint64_t, std::array<int, LOCS>>> dead;
  std::uint64_t nodes = 0;

  // locations below an interrupted set (one that ended in an injected bad_alloc): the property
  // says nothing about how much of such a call took effect, so reads of these locations and
  // their final values are not judged
  // tainted[k]: bit v set = an interrupted set(S, v) with S a prefix of location k exists; such a
  // location may hold what the completed calls give it, or v
  std::array<unsigned, LOCS> tainted{};

  static bool level_explains(LOp const &o, int lv)
  {
    if (o.kind == Kind::get || o.kind == Kind::level)
      return lv == o.result;
    if (o.kind == Kind::enabled)
      return (lv != NONE && o.arg >= lv) == (o.result != 0);
    return true;
  }
  bool read_ok(LOp const &o, Model const &m) const
  {
    if (level_explains(o, m.get(o.path)))
      return true;
    unsigned const extra = tainted[index_of(o.path)];
    for (int v = 0; v <= NONE; ++v)
      if ((extra & (1U << v)) != 0 && level_explains(o, v))
        return true;
    return false;
  }

  bool search(std::uint64_t done, Model const &m)
  {
    ++nodes;
    if (nodes > 2000000)
      return true; // search budget exhausted: no verdict from this history (never an alarm)
    std::uint64_t const all = ops.size() == 64 ? ~std::uint64_t{0} : ((std::uint64_t{1} << ops.size()) - 1);
    if (done == all)
    {
      if (!check_final)
        return true;
      for (unsigned k = 0; k < LOCS; ++k)
        if (m.level[k] != final_state.level[k] && (tainted[k] & (1U << final_state.level[k])) == 0)
          return false;
      return true;
    }
    if (dead.count({done, m.level}) != 0)
      return false;
    std::uint64_t minret = ~std::uint64_t{0};
    for (std::size_t k = 0; k < ops.size(); ++k)
      if ((done & (std::uint64_t{1} << k)) == 0 && ops[k].ret < minret)
        minret = ops[k].ret;
    for (std::size_t k = 0; k < ops.size(); ++k)
    {
      if ((done & (std::uint64_t{1} << k)) != 0 || ops[k].inv > minret)
        continue;
      LOp const &o = ops[k];
      if (o.kind == Kind::set)
      {
        Model n = m;
        n.set(o.path, o.arg);
        if (search(done | (std::uint64_t{1} << k), n))
          return true;
      }
      else if (read_ok(o, m))
      {
        if (search(done | (std::uint64_t{1} << k), m))
          return true;
      }
    }
    dead.insert({done, m.level});
    return false;
  }
};

std::string describe(LOp const &o)
{
  std::string r;
  switch (o.kind)
  {
  case Kind::set: r = "set(" + path_str(o.path) + "," + level_name(o.arg) + ")"; break;
  case Kind::get: r = "get(" + path_str(o.path) + ")=" + level_name(static_cast<int>(o.result)); break;
  case Kind::level: r = "level@" + path_str(o.path) + "=" + level_name(static_cast<int>(o.result)); break;
  case Kind::enabled: r = "enabled@" + path_str(o.path) + "(" + level_name(o.arg) + ")=" + std::to_string(o.result); break;
  default: r = "create(" + path_str(o.path) + ")"; break;
  }
  return r + "[" + std::to_string(o.inv) + "," + std::to_string(o.ret) + "]";
}

struct World
{
  sim::Ctx &ctx;
  explicit World(sim::Ctx &c) : ctx(c) {}

  std::unique_ptr<std::stringbuf> sinkbuf[6];
  std::unique_ptr<std::ostream> sink[6];
  std::unique_ptr<fcppt::log::context> context;
  // a second context that belongs to ONE fiber alone (its set/get calls with c=1 go there): two
  // contexts share nothing, so whatever one fiber does on its private context must neither disturb
  // the shared one nor race with it; judged against its own sequential model on the spot
  std::unique_ptr<fcppt::log::context> private_context;
  int private_owner = -1;
  Model private_model{NONE};
  std::vector<std::unique_ptr<fcppt::log::object>> private_objs;
  std::vector<std::vector<unsigned>> private_obj_paths;
  FiberState fs[MAX_FIBERS + 1]; // [MAX_FIBERS] = prelude (main context)

  // one operation of one fiber (runs inside the fiber, or on main for the prelude)
  void exec(FiberState &f, unsigned fiber, unsigned k)
  {
    sim::Op const &op = f.ops[k];
    OpInfo &info = f.info[k];
    long fault_k = 0;
    {
      std::string const fa = op.gets("fault");
      if (fa.compare(0, 6, "alloc:") == 0)
        fault_k = std::strtol(fa.c_str() + 6, nullptr, 10);
    }
    // (calls on the private context run without injected failures: it has no taint bookkeeping)
    if (fault_k <= 0 || fiber >= MAX_FIBERS || op.get("c") != 0)
    {
      exec_op(f, fiber, k);
      return;
    }
    try
    {
      sim::sched::arm_alloc_fault(static_cast<int>(fiber), fault_k);
      exec_op(f, fiber, k);
      sim::sched::disarm_alloc_fault();
    }
    catch (std::bad_alloc const &)
    {
      sim::sched::disarm_alloc_fault();
      // the operation was interrupted: close its window in the history
      info.failed = true;
      if (info.inv != 0 && info.ret == 0)
        info.ret = sim::sched::record(fiber, k, true, -1);
      info.executed = info.kind == Kind::set && info.inv != 0;
    }
  }

  void exec_op(FiberState &f, unsigned fiber, unsigned k)
  {
    sim::Op const &op = f.ops[k];
    OpInfo &info = f.info[k];
    std::string const &n = op.name;
    if ((n == "set" || n == "get") && op.get("c") != 0 && private_context && static_cast<int>(fiber) == private_owner)
    {
      std::vector<unsigned> const path = path_of(static_cast<unsigned>(op.getu("loc")));
      fcppt::log::location const loc = make_location(path);
      (void)sim::sched::record(fiber, k, false, 0);
      if (n == "set")
      {
        int const v = static_cast<int>(op.getu("lvl") % 7);
        private_context->set(loc, to_level(v));
        private_model.set(path, v);
      }
      else
      {
        int const got = from_level(private_context->get(loc));
        if (got != private_model.get(path))
          sim::violate("private-context", "a context used by one thread only reports " + std::string(level_name(got)) + " for " + path_str(path) + ", its own history gives " + level_name(private_model.get(path)) + " (another context's calls leaked into it)");
      }
      (void)sim::sched::record(fiber, k, true, 0);
      info.kind = Kind::none; // not part of the shared context's history
    }
    else if (n == "obj_loc" && op.get("c") != 0 && private_context && static_cast<int>(fiber) == private_owner)
    {
      // an object created on the private context: its level is what that context's own history says
      unsigned const nm = static_cast<unsigned>(op.getu("name") % NAMES);
      std::vector<unsigned> path = path_of(static_cast<unsigned>(op.getu("loc") % 13));
      fcppt::log::location const loc = make_location(path);
      path.push_back(nm);
      fcppt::log::parameters const params(fcppt::log::name{std::string(name_of(nm))}, fcppt::log::format::optional_function{});
      (void)sim::sched::record(fiber, k, false, 0);
      auto o = std::make_unique<fcppt::log::object>(fcppt::make_ref(*private_context), loc, params);
      (void)sim::sched::record(fiber, k, true, 0);
      int const got = from_level(o->level());
      if (got != private_model.get(path))
        sim::violate("private-context", "an object created on a context used by one thread only reports " + std::string(level_name(got)) + " at " + path_str(path) + ", its own history gives " + level_name(private_model.get(path)) + " (it was bound to a node of another context)");
      private_objs.push_back(std::move(o));
      private_obj_paths.push_back(path);
      info.kind = Kind::none;
    }
    else if (n == "set")
    {
      info.kind = Kind::set;
      info.path = path_of(static_cast<unsigned>(op.getu("loc")));
      info.arg = static_cast<int>(op.getu("lvl") % 7);
      fcppt::log::location const loc = make_location(info.path);
      info.inv = sim::sched::record(fiber, k, false, 0);
      context->set(loc, to_level(info.arg));
      info.ret = sim::sched::record(fiber, k, true, 0);
    }
    else if (n == "get")
    {
      info.kind = Kind::get;
      info.path = path_of(static_cast<unsigned>(op.getu("loc")));
      fcppt::log::location const loc = make_location(info.path);
      info.inv = sim::sched::record(fiber, k, false, 0);
      info.result = from_level(context->get(loc));
      info.ret = sim::sched::record(fiber, k, true, info.result);
    }
    else if (n == "obj_ctx" || n == "obj_loc" || n == "obj_parent")
    {
      unsigned const nm = static_cast<unsigned>(op.getu("name") % NAMES);
      fcppt::log::parameters const params(fcppt::log::name{std::string(name_of(nm))}, fcppt::log::format::optional_function{});
      info.kind = Kind::create;
      std::unique_ptr<fcppt::log::object> o;
      if (n == "obj_ctx")
      {
        info.path = {nm};
        info.inv = sim::sched::record(fiber, k, false, 0);
        o = std::make_unique<fcppt::log::object>(fcppt::make_ref(*context), params);
      }
      else if (n == "obj_loc" || f.objs.empty())
      {
        std::vector<unsigned> const base = path_of(static_cast<unsigned>(op.getu("loc") % 13));
        info.path = base;
        info.path.push_back(nm);
        fcppt::log::location const loc = make_location(base);
        info.inv = sim::sched::record(fiber, k, false, 0);
        o = std::make_unique<fcppt::log::object>(fcppt::make_ref(*context), loc, params);
      }
      else
      {
        std::size_t const pi = op.getu("p") % f.objs.size();
        if (f.obj_paths[pi].size() >= DEPTH)
        {
          info.kind = Kind::none;
          return;
        }
        info.path = f.obj_paths[pi];
        info.path.push_back(nm);
        info.inv = sim::sched::record(fiber, k, false, 0);
        o = std::make_unique<fcppt::log::object>(*f.objs[pi], params);
      }
      sim::sched::disarm_alloc_fault(); // harness bookkeeping below is never a fault site
      info.ret = sim::sched::record(fiber, k, true, 0);
      f.obj_paths.push_back(info.path);
      f.objs.push_back(std::move(o));
    }
    else if (n == "log")
    {
      // only the designated thread 0 logs (the library does not promise that sinks may be shared);
      // whether the message came out is a lock-free observation of the object's level
      if (f.objs.empty() || fiber != 0)
        return;
      std::size_t const oi = op.getu("o") % f.objs.size();
      info.path = f.obj_paths[oi];
      info.kind = Kind::enabled;
      info.arg = static_cast<int>(op.getu("l") % 6);
      std::size_t const before = sinkbuf[info.arg]->str().size();
      info.inv = sim::sched::record(fiber, k, false, 0);
      f.objs[oi]->log(static_cast<fcppt::log::level>(info.arg), fcppt::log::out << "m");
      std::size_t const after = sinkbuf[info.arg]->str().size();
      info.result = after != before ? 1 : 0;
      info.ret = sim::sched::record(fiber, k, true, info.result);
    }
    else if (n == "level" || n == "enabled")
    {
      if (f.objs.empty())
        return;
      std::size_t const oi = op.getu("o") % f.objs.size();
      info.path = f.obj_paths[oi];
      if (n == "level")
      {
        info.kind = Kind::level;
        info.inv = sim::sched::record(fiber, k, false, 0);
        info.result = from_level(f.objs[oi]->level());
      }
      else
      {
        info.kind = Kind::enabled;
        info.arg = static_cast<int>(op.getu("l") % 6);
        info.inv = sim::sched::record(fiber, k, false, 0);
        info.result = f.objs[oi]->enabled(static_cast<fcppt::log::level>(info.arg)) ? 1 : 0;
      }
      info.ret = sim::sched::record(fiber, k, true, info.result);
    }
    else
      return;
    info.executed = true;
  }

  void run(sim::Plan const &plan)
  {
    unsigned const nf = static_cast<unsigned>(std::min<std::uint64_t>(MAX_FIBERS, std::max<std::uint64_t>(1, plan.cfg.getu("fibers", 2))));
    name_variant() = static_cast<unsigned>(plan.cfg.getu("nv") % 6);
    int const root = static_cast<int>(plan.cfg.getu("root") % 7);
    for (int l = 0; l < 6; ++l)
    {
      sinkbuf[l] = std::make_unique<std::stringbuf>();
      sink[l] = std::make_unique<std::ostream>(sinkbuf[l].get());
    }
    context = std::make_unique<fcppt::log::context>(
        to_level(root),
        fcppt::enum_::array_init<fcppt::log::level_stream_array>([this](fcppt::log::level const l) {
          return fcppt::log::level_stream(*sink[static_cast<unsigned>(l)], fcppt::log::format::optional_function(fcppt::log::format::default_level(l)));
        }));
    private_owner = plan.cfg.has("pc") ? static_cast<int>(plan.cfg.getu("pc") % nf) : -1;
    private_model = Model(root);
    if (private_owner >= 0)
    {
      // (it writes to the same sinks; nothing is logged through it)
      private_context = std::make_unique<fcppt::log::context>(
          to_level(root),
          fcppt::enum_::array_init<fcppt::log::level_stream_array>([this](fcppt::log::level const l) {
            return fcppt::log::level_stream(*sink[static_cast<unsigned>(l)], fcppt::log::format::optional_function(fcppt::log::format::default_level(l)));
          }));
      ctx.probe("runs_with_a_private_second_context");
    }
    for (sim::Op const &op : plan.ops)
    {
      std::uint64_t const t = op.getu("t", 0);
      FiberState &f = t == PRELUDE ? fs[MAX_FIBERS] : fs[t % nf];
      f.ops.push_back(op);
    }
    for (auto &f : fs)
      f.info.resize(f.ops.size());
    sim::sched::clear_history();
    // sequential prelude on the main context
    for (unsigned k = 0; k < fs[MAX_FIBERS].ops.size(); ++k)
      exec(fs[MAX_FIBERS], MAX_FIBERS, k);
    // concurrent phase
    std::vector<std::function<void()>> bodies;
    for (unsigned t = 0; t < nf; ++t)
      bodies.emplace_back([this, t] {
        FiberState &f = fs[t];
        for (unsigned k = 0; k < f.ops.size(); ++k)
          exec(f, t, k);
      });
    sim::sched::Config cfg;
    cfg.seed = plan.cfg.getu("ss", 1);
    cfg.pct_depth = static_cast<unsigned>(plan.cfg.getu("depth", 2));
    cfg.preempt_percent = static_cast<unsigned>(plan.cfg.getu("pre", 10));
    switch (plan.cfg.getu("policy") % 3)
    {
    case 0: cfg.policy = sim::sched::Policy::random; break;
    case 1: cfg.policy = sim::sched::Policy::pct; break;
    default: cfg.policy = sim::sched::Policy::sticky; break;
    }
    if (!plan.sched.empty())
    {
      cfg.policy = sim::sched::Policy::replay;
      cfg.choices = plan.sched;
    }
    sim::sched::Result const res = sim::sched::run(bodies, cfg);
    ctx.sched_out = res.choices;
    ctx.steps += res.steps;
    ctx.interleaving = res.interleaving_hash;
    if (res.table_overflow)
      sim::detail::fatal_violation("harness", "the scheduler's lock table overflowed: " + res.detail);
    if (res.deadlock || res.step_bound)
      sim::detail::fatal_violation(res.deadlock ? "deadlock" : "step-bound", res.detail);
    if (res.locks_held_at_end != 0)
      sim::detail::fatal_violation("lock-not-released", std::to_string(res.locks_held_at_end) + " mutex(es) still locked after every thread had finished (a lock was not released on an exception path)");
    ctx.probe("alloc_faults_fired", res.alloc_faults_fired);
    ctx.probe("context_switches", res.switches);
    ctx.probe("parked_on_mutex", res.parked);
    ctx.probe("preempted_inside_critical_section", res.preempt_in_cs);
    if (res.parked != 0)
      ctx.probe("runs_with_lock_contention");
    if (res.preempt_in_cs != 0)
      ctx.probe("runs_with_preemption_in_critical_section");
    for (std::string const &e : res.fiber_errors)
      if (!e.empty())
        sim::violate("fiber-exception", e);
    // event log: the interleaving itself
    ctx.ev("interleaving " + std::to_string(res.interleaving_hash) + " steps " + std::to_string(res.steps));

    // ---- audit (sequential, after all fibers have been joined)
    Model observed(NONE);
    for (unsigned k = 0; k < LOCS; ++k)
      observed.level[k] = from_level(context->get(make_location(path_of(k))));

    // ---- history checks
    std::vector<LOp> protected_ops, lockfree;
    std::array<unsigned, LOCS> tainted{};
    auto collect = [&](FiberState const &f) {
      for (OpInfo const &i : f.info)
      {
        if (!i.executed)
          continue;
        LOp o{i.inv, i.ret, i.kind, i.path, i.arg, i.result};
        if (i.failed)
        {
          // an interrupted set: everything below its location is out of the judged universe
          for (unsigned k = 0; k < LOCS; ++k)
            if (is_prefix(i.path, path_of(k)))
              tainted[k] |= 1U << i.arg;
          ctx.probe("interrupted_set_locations_not_judged");
        }
        else if (i.kind == Kind::set || i.kind == Kind::get)
          protected_ops.push_back(o);
        else if (i.kind == Kind::level || i.kind == Kind::enabled)
          lockfree.push_back(o);
      }
    };
    for (auto const &f : fs)
      collect(f);
    std::string hist;
    for (LOp const &o : protected_ops)
      hist += describe(o) + " ";
    ctx.ev("history " + hist);
    bool const judged = protected_ops.size() < 63; // the search keeps the done set in 64 bits
    if (!judged)
      ctx.probe("history_too_long_for_the_search");
    if (judged)
    {
      Lin lin;
      lin.ops = protected_ops;
      lin.tainted = tainted;
      lin.final_state = observed;
      lin.check_final = true;
      bool const ok = lin.search(0, Model(root));
      ctx.probe("linearizability_search_nodes", lin.nodes);
      if (!ok)
        sim::violate("linearizability", "no sequential ordering of the lock-protected calls explains the observed results and the final state: " + hist);
    }
    for (LOp const &r : lockfree)
    {
      if (!judged)
        break;
      Lin lin;
      lin.tainted = tainted;
      lin.ops = protected_ops;
      lin.ops.push_back(r);
      lin.final_state = observed;
      lin.check_final = true;
      bool const ok = lin.search(0, Model(root));
      if (!ok)
        sim::violate("linearizability", "the lock-free read " + describe(r) + " cannot be placed in any sequential ordering of: " + hist);
      ctx.ev("read " + describe(r));
    }
    ctx.probe("lockfree_reads_checked", lockfree.size());
    // duplicate nodes created by a racing find-or-create: a set on an object's location must be
    // seen by every object at that location and by get
    unsigned fresh = 0;
    for (auto &f : fs)
      for (std::size_t k = 0; k < f.objs.size(); ++k)
      {
        std::vector<unsigned> const &p = f.obj_paths[k];
        int const v = static_cast<int>(fresh++ % 6);
        context->set(make_location(p), to_level(v));
        for (auto &f2 : fs)
          for (std::size_t j = 0; j < f2.objs.size(); ++j)
            if (f2.obj_paths[j] == p)
            {
              int const got = from_level(f2.objs[j]->level());
              if (got != v)
                sim::violate("audit:duplicate-node", "after set(" + path_str(p) + "," + level_name(v) + ") an object at that location still reports " + level_name(got));
            }
        int const got = from_level(context->get(make_location(p)));
        if (got != v)
          sim::violate("audit:duplicate-node", "after set(" + path_str(p) + "," + level_name(v) + ") get reports " + level_name(got));
      }
    if (res.tsan_reports != 0)
      sim::violate(std::string("tsan:") + sim::sched::tsan_first_report_kind(), std::to_string(res.tsan_reports) + " ThreadSanitizer report(s) during the concurrent phase (see the report text in the replay output)");
    unsigned executed = 0;
    for (auto const &f : fs)
      for (OpInfo const &i : f.info)
        executed += i.executed ? 1 : 0;
    ctx.nontrivial = executed >= 3 && nf >= 2;
    // teardown
    for (auto &f : fs)
    {
      f.objs.clear();
    }
    // the private context's objects at the end: still what its own history says
    for (std::size_t k = 0; k < private_objs.size(); ++k)
    {
      int const got = from_level(private_objs[k]->level());
      if (got != private_model.get(private_obj_paths[k]))
        sim::violate("private-context", "at the end an object of the private context reports " + std::string(level_name(got)) + " at " + path_str(private_obj_paths[k]) + ", its own history gives " + level_name(private_model.get(private_obj_paths[k])));
    }
    private_objs.clear();
    private_obj_paths.clear();
    private_context.reset();
    context.reset();
  }
};
}

namespace prop
{
void warmup()
{
  // one sequential scenario on the main context: lazily initialised statics must exist before
  // fibers run (a fiber preempted inside a static initialiser would hang a one-thread simulator)
  sim::Plan p;
  p.cfg.set("fibers", 2).set("root", 2).set("policy", 0).set("ss", 1);
  p.ops.push_back(sim::Op("obj_loc").set("t", 9).set("loc", 5).set("name", 2));
  p.ops.push_back(sim::Op("set").set("t", 9).set("loc", 1).set("lvl", 1));
  p.ops.push_back(sim::Op("obj_ctx").set("t", 0).set("name", 0));
  p.ops.push_back(sim::Op("obj_parent").set("t", 0).set("p", 0).set("name", 1));
  p.ops.push_back(sim::Op("enabled").set("t", 0).set("o", 1).set("l", 1));
  p.ops.push_back(sim::Op("get").set("t", 1).set("loc", 7));
  p.ops.push_back(sim::Op("set").set("t", 1).set("loc", 7).set("lvl", 3));
  p.ops.push_back(sim::Op("level").set("t", 0).set("o", 0));
  p.property = prop::id;
  sim::detail::announce_warmup(p);
  sim::Ctx ctx;
  try
  {
    World w(ctx);
    w.run(p);
  }
  catch (...)
  {
  }
}

void generate(sim::Rng &rng, sim::Plan &p, bool)
{
  unsigned const nf = static_cast<unsigned>(rng.chance(1, 4) ? rng.range(5, MAX_FIBERS) : rng.range(2, 4));
  p.cfg.set("fibers", nf);
  p.cfg.set("root", static_cast<long>(rng.below(7)));
  if (rng.chance(1, 4))
    p.cfg.set("nv", static_cast<long>(rng.range(1, 5)));
  p.cfg.set("policy", static_cast<long>(rng.below(3)));
  p.cfg.set("ss", static_cast<long>(rng.below(1000000000)));
  p.cfg.set("depth", static_cast<long>(rng.range(1, 4)));
  p.cfg.set("pre", static_cast<long>(rng.range(2, 40)));
  // swarm: restrict the universe so that fibers really meet on the same nodes
  unsigned const names = static_cast<unsigned>(rng.range(1, 3));
  unsigned const depth = static_cast<unsigned>(rng.range(1, 3));
  auto loc = [&](unsigned maxdepth) -> long {
    unsigned const d = static_cast<unsigned>(rng.below(std::min(depth, maxdepth) + 1));
    std::vector<unsigned> path;
    for (unsigned k = 0; k < d; ++k)
      path.push_back(static_cast<unsigned>(rng.below(names)));
    return static_cast<long>(index_of(path));
  };
  static char const *const kinds[] = {"set", "get", "obj_ctx", "obj_loc", "obj_parent", "level", "enabled", "log"};
  unsigned weights[8];
  for (unsigned &w : weights)
    w = static_cast<unsigned>(rng.range(1, 4));
  weights[0] += 2;
  weights[3] += 2;
  auto pick_kind = [&]() -> std::string {
    unsigned total = 0;
    for (unsigned w : weights)
      total += w;
    unsigned r = static_cast<unsigned>(rng.below(total));
    for (unsigned k = 0; k < 8; ++k)
    {
      if (r < weights[k])
        return kinds[k];
      r -= weights[k];
    }
    return "get";
  };
  auto make_op = [&](unsigned t) {
    sim::Op op(pick_kind());
    std::string const &n = op.name;
    op.set("t", static_cast<long>(t));
    if (n == "set" || n == "get")
      op.set("loc", loc(3));
    if (n == "obj_loc")
      op.set("loc", loc(2));
    if (n == "set")
      op.set("lvl", static_cast<long>(rng.below(7)));
    if (n == "obj_ctx" || n == "obj_loc" || n == "obj_parent")
      op.set("name", static_cast<long>(rng.below(names)));
    if (n == "obj_parent")
      op.set("p", static_cast<long>(rng.below(4))).set("loc", loc(2));
    if (n == "level" || n == "enabled" || n == "log")
      op.set("o", static_cast<long>(rng.below(4)));
    if (n == "enabled" || n == "log")
      op.set("l", static_cast<long>(rng.below(6)));
    return op;
  };
  bool const faulty = rng.chance(1, 5);
  if (faulty)
    p.cfg.set("faulty", 1);
  int const private_owner = rng.chance(1, 4) ? static_cast<int>(rng.below(nf)) : -1;
  if (private_owner >= 0)
    p.cfg.set("pc", static_cast<long>(private_owner));
  unsigned const prelude = static_cast<unsigned>(rng.below(4));
  for (unsigned k = 0; k < prelude; ++k)
    p.ops.push_back(make_op(PRELUDE));
  for (unsigned t = 0; t < nf; ++t)
  {
    unsigned const len = static_cast<unsigned>(nf > 4 ? rng.range(1, 4) : rng.range(2, 6));
    for (unsigned k = 0; k < len; ++k)
    {
      sim::Op op = make_op(t);
      if (static_cast<int>(t) == private_owner && (op.name == "set" || op.name == "get" || op.name == "obj_loc") && rng.chance(2, 3))
        op.set("c", 1);
      if (faulty && rng.chance(1, 4) && op.name != "level" && op.name != "enabled" && op.name != "log")
        op.sets("fault", "alloc:" + std::to_string(rng.range(1, 8)));
      p.ops.push_back(op);
    }
  }
}

void execute(sim::Plan const &p, sim::Ctx &ctx)
{
  World w(ctx);
  w.run(p);
}
}

int main(int argc, char **argv) { return sim::sim_main(argc, argv); }
