// C07: raw_vector and buffer behave like std::vector for every operation history,
//      under allocation failures and short / failing readers.
#include <fcppt/container/buffer/append_from.hpp>
#include <fcppt/container/buffer/append_from_opt.hpp>
#include <fcppt/container/buffer/object.hpp>
#include <fcppt/container/buffer/read_from.hpp>
#include <fcppt/container/buffer/read_from_opt.hpp>
#include <fcppt/container/buffer/to_raw_vector.hpp>
#include <fcppt/container/raw_vector/comparison.hpp>
#include <fcppt/container/raw_vector/object.hpp>
#include <fcppt/container/dynamic_array.hpp>
#include <fcppt/io/read_chars.hpp>
#include <fcppt/optional/object.hpp>
#include <algorithm>
#include <istream>
#include <iterator>
#include <list>
#include <memory>
#include <optional>
#include <sstream>
#include <string>
#include <vector>
#include "core/main.hpp"
#include "seams/alloc.hpp"
#include "seams/streambuf.hpp"

namespace prop
{
char const *const id = "C07";
}

namespace
{
struct P12
{
  int a, b, c;
};
bool operator==(P12 const &x, P12 const &y) { return x.a == y.a && x.b == y.b && x.c == y.c; }
bool operator!=(P12 const &x, P12 const &y) { return !(x == y); }
bool operator<(P12 const &x, P12 const &y)
{
  if (x.a != y.a)
    return x.a < y.a;
  if (x.b != y.b)
    return x.b < y.b;
  return x.c < y.c;
}

template <typename T>
T make_val(long c);
template <>
unsigned char make_val<unsigned char>(long c)
{
  return static_cast<unsigned char>(c & 0xff);
}
template <>
int make_val<int>(long c)
{
  return static_cast<int>(c);
}
template <>
P12 make_val<P12>(long c)
{
  return P12{static_cast<int>(c), static_cast<int>(c * 3), static_cast<int>(~c)};
}
std::string show(unsigned char v) { return std::to_string(static_cast<int>(v)); }
std::string show(int v) { return std::to_string(v); }
std::string show(P12 const &v) { return std::to_string(v.a); }

template <typename T>
std::string show(std::vector<T> const &v)
{
  std::string r = "[";
  for (std::size_t i = 0; i < v.size(); ++i)
    r += (i != 0 ? "," : "") + show(v[i]);
  return r + "]";
}

// single-pass input iterator over a vector; throws sim::Fault on the simulator's order
// an element type that is not T but converts to it (and has another size): ranges of it are
// legitimate sources for the range constructor and range insert, element-wise conversion required
template <typename T>
struct Wide
{
  T v;
  long pad;
  operator T() const { return v; }
};
template <typename T>
std::vector<Wide<T>> widen_range(std::vector<T> const &src)
{
  std::vector<Wide<T>> r;
  for (T const &x : src)
    r.push_back(Wide<T>{x, 0x5a5a5a5a5a5a5a5aL});
  return r;
}

template <typename T>
class InIt
{
public:
  using iterator_category = std::input_iterator_tag;
  using value_type = T;
  using difference_type = std::ptrdiff_t;
  using pointer = T const *;
  using reference = T const &;
  InIt() : v_(nullptr), i_(0) {}
  InIt(std::vector<T> const *v, std::size_t i) : v_(v), i_(i) {}
  reference operator*() const
  {
    if (sim::fault::hit(sim::fault::reader))
      throw sim::Fault{"simulated failure of an input range"};
    return (*v_)[i_];
  }
  InIt &operator++()
  {
    ++i_;
    return *this;
  }
  InIt operator++(int)
  {
    InIt t(*this);
    ++i_;
    return t;
  }
  bool operator==(InIt const &o) const { return i_ == o.i_; }
  bool operator!=(InIt const &o) const { return i_ != o.i_; }

private:
  std::vector<T> const *v_;
  std::size_t i_;
};

constexpr unsigned VSLOTS = 3;
constexpr unsigned BSLOTS = 2;

template <typename T>
struct World
{
  using A = sim::Alloc<T>;
  using RV = fcppt::container::raw_vector::object<T, A>;
  using Buf = fcppt::container::buffer::object<T, A>;

  struct VSlot
  {
    std::unique_ptr<RV> sut;
    std::vector<T> model;
  };
  struct BSlot
  {
    std::unique_ptr<Buf> sut;
    std::vector<T> read; // model of the read area
    std::size_t wsize = 0; // model of the write area size
  };
  VSlot v[VSLOTS];
  BSlot b[BSLOTS];
  long counter = 1;
  std::size_t scale = 1; // swarm knob: some runs use counts 8 times larger (reallocation at larger sizes)
  sim::Ctx &ctx;

  explicit World(sim::Ctx &c) : ctx(c) {}

  T fresh() { return make_val<T>(counter++); }
  std::vector<T> fresh_n(std::size_t n)
  {
    std::vector<T> r;
    for (std::size_t i = 0; i < n; ++i)
      r.push_back(fresh());
    return r;
  }

  static std::vector<T> contents(RV const &r)
  {
    std::vector<T> out;
    for (auto it = r.begin(); it != r.end(); ++it)
      out.push_back(*it);
    return out;
  }
  static std::vector<T> contents(Buf const &r)
  {
    std::vector<T> out;
    for (auto it = r.begin(); it != r.end(); ++it)
      out.push_back(*it);
    return out;
  }

  // ---- invariants, after every step
  void check_vector(unsigned s, char const *when)
  {
    VSlot &sl = v[s];
    if (!sl.sut)
      return;
    RV &r = *sl.sut;
    RV const &cr = r;
    std::string const w = std::string(when) + " slot v" + std::to_string(s);
    SIM_CHECK(r.size() == sl.model.size(), "size",
              w + " size=" + std::to_string(r.size()) + " model=" + std::to_string(sl.model.size()));
    SIM_CHECK(r.capacity() >= r.size(), "capacity-below-size", w);
    SIM_CHECK(r.empty() == sl.model.empty(), "empty", w);
    SIM_CHECK(r.data() == r.begin() && cr.data() == cr.begin(), "data-begin", w);
    SIM_CHECK(r.data_end() == r.end() && cr.data_end() == cr.end(), "data-end", w);
    SIM_CHECK(static_cast<std::size_t>(r.end() - r.begin()) == sl.model.size(), "iterator-distance", w);
    std::vector<T> const c = contents(cr);
    SIM_CHECK(c == sl.model, "contents", w + " sut=" + show(c) + " model=" + show(sl.model));
    if (!sl.model.empty())
    {
      SIM_CHECK(r.front() == sl.model.front() && cr.front() == sl.model.front(), "front", w);
      SIM_CHECK(r.back() == sl.model.back() && cr.back() == sl.model.back(), "back", w);
      std::size_t const mid = sl.model.size() / 2;
      SIM_CHECK(r[mid] == sl.model[mid] && cr[mid] == sl.model[mid], "index", w);
    }
    // ledger: the storage block is exactly one live block of `capacity` elements
    sim::Ledger &l = sim::ledger();
    if (r.data() != nullptr)
    {
      auto it = l.live.find(static_cast<void *>(r.data()));
      SIM_CHECK(it != l.live.end(), "ledger:storage-not-live", w);
      SIM_CHECK(it->second == r.capacity(), "ledger:capacity-mismatch",
                w + " block=" + std::to_string(it->second) + " capacity=" + std::to_string(r.capacity()));
    }
    else
      SIM_CHECK(r.capacity() == 0, "null-storage-with-capacity", w);
  }

  void check_buffer(unsigned s, char const *when)
  {
    BSlot &sl = b[s];
    if (!sl.sut)
      return;
    Buf &r = *sl.sut;
    Buf const &cr = r;
    std::string const w = std::string(when) + " slot b" + std::to_string(s);
    SIM_CHECK(cr.read_size() == sl.read.size(), "buffer-read-size",
              w + " sut=" + std::to_string(cr.read_size()) + " model=" + std::to_string(sl.read.size()));
    SIM_CHECK(cr.write_size() == sl.wsize, "buffer-write-size",
              w + " sut=" + std::to_string(cr.write_size()) + " model=" + std::to_string(sl.wsize));
    SIM_CHECK(cr.read_data() == cr.begin() && cr.read_data_end() == cr.end(), "buffer-iterators", w);
    SIM_CHECK(r.write_data() == cr.read_data_end(), "buffer-write-begin", w);
    SIM_CHECK(static_cast<std::size_t>(r.write_data_end() - r.write_data()) == sl.wsize,
              "buffer-write-area", w);
    std::vector<T> const c = contents(cr);
    SIM_CHECK(c == sl.read, "buffer-contents", w + " sut=" + show(c) + " model=" + show(sl.read));
    if (!sl.read.empty())
      SIM_CHECK(cr[sl.read.size() - 1] == sl.read.back(), "buffer-index", w);
    sim::Ledger &l = sim::ledger();
    if (cr.read_data() != nullptr)
    {
      auto it = l.live.find(const_cast<void *>(static_cast<void const *>(cr.read_data())));
      SIM_CHECK(it != l.live.end(), "ledger:storage-not-live", w);
      SIM_CHECK(it->second >= sl.read.size() + sl.wsize, "ledger:areas-exceed-block", w);
    }
    else
      SIM_CHECK(sl.read.empty() && sl.wsize == 0, "null-storage-with-areas", w);
  }

  void check_all(char const *when)
  {
    sim::Ledger &l = sim::ledger();
    SIM_CHECK(l.error.empty(), l.error.substr(0, l.error.find(' ')), std::string(when) + " " + l.error);
    std::size_t blocks = 0;
    for (unsigned s = 0; s < VSLOTS; ++s)
    {
      check_vector(s, when);
      if (v[s].sut && v[s].sut->data() != nullptr)
        ++blocks;
    }
    for (unsigned s = 0; s < BSLOTS; ++s)
    {
      check_buffer(s, when);
      if (b[s].sut && static_cast<Buf const &>(*b[s].sut).read_data() != nullptr)
        ++blocks;
    }
    SIM_CHECK(l.live.size() == blocks, "ledger:leak",
              std::string(when) + " live blocks=" + std::to_string(l.live.size()) +
                  " owned by objects=" + std::to_string(blocks));
  }

  std::string state_str()
  {
    std::string r;
    for (unsigned s = 0; s < VSLOTS; ++s)
      r += v[s].sut ? ("v" + std::to_string(s) + "=" + show(v[s].model) + " ") : "";
    for (unsigned s = 0; s < BSLOTS; ++s)
      r += b[s].sut ? ("b" + std::to_string(s) + "=" + show(b[s].read) + "+" + std::to_string(b[s].wsize) + " ") : "";
    return r;
  }

  // after bad_alloc / a failed source in a mutating vector op: the object must hold one of the
  // allowed states; the model is re-synchronised to the one it holds
  void resync_vector(unsigned s, std::vector<std::vector<T>> const &allowed, char const *op)
  {
    VSlot &sl = v[s];
    std::vector<T> const c = contents(*sl.sut);
    for (auto const &a : allowed)
      if (a == c)
      {
        sl.model = c;
        return;
      }
    sim::violate("state-after-fault", std::string(op) + ": contents after a failed operation are " +
                                          show(c) + ", neither before-state nor after-state");
  }

  // ---- operations
  void run_op(sim::Op const &op)
  {
    std::string const &n = op.name;
    unsigned const s = static_cast<unsigned>(op.getu("s") % VSLOTS);
    unsigned const t = static_cast<unsigned>(op.getu("t") % VSLOTS);
    unsigned const bs = static_cast<unsigned>(op.getu("b") % BSLOTS);
    unsigned const bt = static_cast<unsigned>(op.getu("bt") % BSLOTS);
    VSlot &vs = v[s];
    BSlot &bsl = b[bs];
    A const alloc{};

    auto guarded = [&](auto &&f) -> bool {
      // runs f as code under test; returns false iff an injected fault made it throw
      try
      {
        sim::fault::Sut sut;
        f();
        return true;
      }
      catch (std::bad_alloc const &)
      {
        SIM_CHECK(sim::fault::fired(sim::fault::alloc), "undocumented-exception",
                  n + ": bad_alloc without an injected allocation failure");
        ctx.probe("op_threw_bad_alloc");
        return false;
      }
      catch (sim::Fault const &)
      {
        ctx.probe("op_threw_source_fault");
        return false;
      }
    };

    // ---- vector constructors
    if (n == "ctor_default" || n == "ctor_alloc")
    {
      if (vs.sut)
        return;
      if (n == "ctor_default")
        guarded([&] { vs.sut = std::make_unique<RV>(); });
      else
        guarded([&] { vs.sut = std::make_unique<RV>(alloc); });
      vs.model.clear();
      ctx.ev(n + " v" + std::to_string(s));
      return;
    }
    if (n == "ctor_n")
    {
      if (vs.sut)
        return;
      std::size_t const cnt = op.getu("n") % (20U * scale);
      T const val = fresh();
      bool ok;
      if (op.get("a") != 0)
        ok = guarded([&] { vs.sut = std::make_unique<RV>(cnt, val, alloc); });
      else
        ok = guarded([&] { vs.sut = std::make_unique<RV>(cnt, val); });
      if (ok)
        vs.model.assign(cnt, val);
      else
        SIM_CHECK(!vs.sut, "ctor-threw-but-object-exists", n);
      ctx.ev(n + " v" + std::to_string(s) + " n=" + std::to_string(cnt) + (ok ? "" : " threw"));
      return;
    }
    if (n == "ctor_range" || n == "ctor_il")
    {
      if (vs.sut)
        return;
      std::size_t const cnt = op.getu("n") % (20U * scale);
      std::vector<T> const src = fresh_n(cnt);
      long const kind = n == "ctor_il" ? 3 : static_cast<long>(op.getu("k") % 3);
      bool ok = false;
      std::vector<Wide<T>> const wsrc = widen_range(src);
      if (kind == 0 && op.get("ot") != 0)
      {
        ctx.probe("range_of_another_element_type");
        ok = guarded([&] {
          vs.sut = op.get("a") != 0 ? std::make_unique<RV>(wsrc.begin(), wsrc.end(), alloc)
                                    : std::make_unique<RV>(wsrc.begin(), wsrc.end());
        });
      }
      else if (kind == 0)
        ok = guarded([&] {
          vs.sut = op.get("a") != 0 ? std::make_unique<RV>(src.begin(), src.end(), alloc)
                                    : std::make_unique<RV>(src.begin(), src.end());
        });
      else if (kind == 1)
      {
        std::list<T> const l(src.begin(), src.end());
        ok = guarded([&] { vs.sut = std::make_unique<RV>(l.begin(), l.end()); });
      }
      else if (kind == 2)
      {
        ctx.probe("input_range_ctor");
        ok = guarded([&] {
          vs.sut = op.get("a") != 0
                       ? std::make_unique<RV>(InIt<T>(&src, 0), InIt<T>(&src, src.size()), alloc)
                       : std::make_unique<RV>(InIt<T>(&src, 0), InIt<T>(&src, src.size()));
        });
      }
      else
      {
        // initializer lists have a static length: use the first 0..4 values
        std::size_t const k = cnt % 5;
        std::vector<T> s2(src.begin(), src.begin() + static_cast<std::ptrdiff_t>(k));
        ok = guarded([&] {
          switch (k)
          {
          case 0:
            vs.sut = std::make_unique<RV>(std::initializer_list<T>{});
            break;
          case 1:
            vs.sut = std::make_unique<RV>(std::initializer_list<T>{s2[0]});
            break;
          case 2:
            vs.sut = std::make_unique<RV>(std::initializer_list<T>{s2[0], s2[1]}, alloc);
            break;
          case 3:
            vs.sut = std::make_unique<RV>(std::initializer_list<T>{s2[0], s2[1], s2[2]});
            break;
          default:
            vs.sut = std::make_unique<RV>(std::initializer_list<T>{s2[0], s2[1], s2[2], s2[3]}, alloc);
            break;
          }
        });
        if (ok)
          vs.model = s2;
        ctx.ev(n + " v" + std::to_string(s) + " n=" + std::to_string(k) + (ok ? "" : " threw"));
        return;
      }
      if (ok)
        vs.model = src;
      else
        SIM_CHECK(!vs.sut, "ctor-threw-but-object-exists", n);
      ctx.ev(n + " v" + std::to_string(s) + " kind=" + std::to_string(kind) + " n=" +
             std::to_string(cnt) + (ok ? "" : " threw"));
      return;
    }
    if (n == "destroy")
    {
      if (!vs.sut)
        return;
      guarded([&] { vs.sut.reset(); });
      vs.model.clear();
      ctx.ev("destroy v" + std::to_string(s));
      return;
    }

    // ---- vector mutators (need an existing object)
    if (n == "push_back")
    {
      if (!vs.sut)
        return;
      RV &r = *vs.sut;
      std::vector<T> const before = vs.model;
      bool const alias = op.get("alias") != 0 && !before.empty();
      std::size_t const ai = alias ? op.getu("ai") % before.size() : 0;
      T const val = alias ? before[ai] : fresh();
      bool const realloc = r.size() + 1 > r.capacity();
      if (alias)
        ctx.probe(realloc ? "alias_push_realloc" : "alias_push_inplace");
      bool const ok = guarded([&] {
        if (alias)
          r.push_back(r[ai]);
        else
          r.push_back(val);
      });
      std::vector<T> after = before;
      after.push_back(val);
      if (ok)
        vs.model = after;
      else
        resync_vector(s, {before}, "push_back");
      ctx.ev("push_back v" + std::to_string(s) + (alias ? " alias" : "") + (ok ? "" : " threw"));
      return;
    }
    if (n == "pop_back")
    {
      if (!vs.sut || vs.model.empty())
        return;
      guarded([&] { vs.sut->pop_back(); });
      vs.model.pop_back();
      ctx.ev("pop_back v" + std::to_string(s));
      return;
    }
    if (n == "insert1")
    {
      if (!vs.sut)
        return;
      RV &r = *vs.sut;
      std::vector<T> const before = vs.model;
      std::size_t const pos = op.getu("pos") % (before.size() + 1);
      bool const alias = op.get("alias") != 0 && !before.empty();
      std::size_t const ai = alias ? op.getu("ai") % before.size() : 0;
      T const val = alias ? before[ai] : fresh();
      bool const realloc = r.size() + 1 > r.capacity();
      if (alias)
        ctx.probe(realloc ? "alias_insert_realloc" : "alias_insert_inplace");
      ctx.probe(realloc ? "insert1_realloc" : "insert1_inplace");
      std::ptrdiff_t ret = -1;
      bool const ok = guarded([&] {
        typename RV::iterator it = alias ? r.insert(r.begin() + static_cast<std::ptrdiff_t>(pos), r[ai])
                                         : r.insert(r.begin() + static_cast<std::ptrdiff_t>(pos), val);
        ret = it - r.begin();
      });
      std::vector<T> after = before;
      auto const mit = after.insert(after.begin() + static_cast<std::ptrdiff_t>(pos), val);
      if (ok)
      {
        vs.model = after;
        SIM_CHECK(ret == mit - after.begin(), "returned-iterator",
                  "insert(pos, v) returned offset " + std::to_string(ret) + ", std::vector returns " +
                      std::to_string(mit - after.begin()));
      }
      else
        resync_vector(s, {before}, "insert1");
      ctx.ev("insert1 v" + std::to_string(s) + " pos=" + std::to_string(pos) + (alias ? " alias=" + std::to_string(ai) : "") + (ok ? "" : " threw"));
      return;
    }
    if (n == "insertn")
    {
      if (!vs.sut)
        return;
      RV &r = *vs.sut;
      std::vector<T> const before = vs.model;
      std::size_t const pos = op.getu("pos") % (before.size() + 1);
      std::size_t const cnt = op.getu("n") % (9U * scale);
      bool const alias = op.get("alias") != 0 && !before.empty();
      std::size_t const ai = alias ? op.getu("ai") % before.size() : 0;
      T const val = alias ? before[ai] : fresh();
      bool const realloc = r.size() + cnt > r.capacity();
      if (alias && cnt != 0)
        ctx.probe(realloc ? "alias_insertn_realloc" : "alias_insertn_inplace");
      bool const ok = guarded([&] {
        if (alias)
          r.insert(r.begin() + static_cast<std::ptrdiff_t>(pos), cnt, r[ai]);
        else
          r.insert(r.begin() + static_cast<std::ptrdiff_t>(pos), cnt, val);
      });
      std::vector<T> after = before;
      after.insert(after.begin() + static_cast<std::ptrdiff_t>(pos), cnt, val);
      if (ok)
        vs.model = after;
      else
        resync_vector(s, {before}, "insertn");
      ctx.ev("insertn v" + std::to_string(s) + " pos=" + std::to_string(pos) + " n=" + std::to_string(cnt) + (alias ? " alias=" + std::to_string(ai) : "") + (ok ? "" : " threw"));
      return;
    }
    if (n == "insertr")
    {
      if (!vs.sut)
        return;
      RV &r = *vs.sut;
      std::vector<T> const before = vs.model;
      std::size_t const pos = op.getu("pos") % (before.size() + 1);
      long kind = static_cast<long>(op.getu("k") % 4);
      // (a single-pass source is inserted element by element, each one shifting the tail: counts
      // stay small in huge runs, the check is about behaviour, not about quadratic running time)
      std::size_t const cnt = op.getu("n") % (kind == 2 && scale > 64 ? 64U : 12U * scale);
      std::vector<T> src;
      if (kind == 3)
      {
        // the range of another slot
        if (t == s || !v[t].sut)
          kind = 0;
        else
          src = v[t].model;
      }
      if (kind != 3)
        src = fresh_n(cnt);
      std::list<T> const l(src.begin(), src.end());
      std::vector<Wide<T>> const wsrc = widen_range(src);
      bool const other_type = kind == 0 && op.get("ot") != 0;
      if (other_type)
        ctx.probe("range_of_another_element_type");
      bool const realloc = r.size() + src.size() > r.capacity();
      ctx.probe(kind == 2 ? "insertr_input" : (realloc ? "insertr_fwd_realloc" : "insertr_fwd_inplace"));
      auto const p = [&] { return r.begin() + static_cast<std::ptrdiff_t>(pos); };
      bool const ok = guarded([&] {
        switch (kind)
        {
        case 0:
          if (other_type)
            r.insert(p(), wsrc.begin(), wsrc.end());
          else
            r.insert(p(), src.begin(), src.end());
          break;
        case 1:
          r.insert(p(), l.begin(), l.end());
          break;
        case 2:
          r.insert(p(), InIt<T>(&src, 0), InIt<T>(&src, src.size()));
          break;
        default:
          r.insert(p(), static_cast<RV const &>(*v[t].sut).begin(), static_cast<RV const &>(*v[t].sut).end());
          break;
        }
      });
      std::vector<T> after = before;
      after.insert(after.begin() + static_cast<std::ptrdiff_t>(pos), src.begin(), src.end());
      if (ok)
        vs.model = after;
      else
      {
        if (kind == 2)
        {
          // single-pass source: only the basic guarantee. Accepted: the old elements in their old
          // order plus some prefix of the source in source order, wherever the implementation
          // had put them when the failure struck (one-by-one insertion, or append-then-rotate)
          std::vector<T> const c = contents(*vs.sut);
          // is c an interleaving of `before` (complete) and a prefix of `src`? (values may repeat,
          // so all splits are tracked: reach[si] = the first k elements of c can be explained with
          // si elements of src and k - si elements of before)
          bool good = c.size() >= before.size() && c.size() - before.size() <= src.size();
          if (good)
          {
            std::size_t const want_si = c.size() - before.size();
            std::vector<char> reach(want_si + 1, 0), next(want_si + 1, 0);
            reach[0] = 1;
            for (std::size_t k = 0; k < c.size() && good; ++k)
            {
              std::fill(next.begin(), next.end(), 0);
              bool any = false;
              for (std::size_t si = 0; si <= want_si && si <= k; ++si)
              {
                if (reach[si] == 0)
                  continue;
                std::size_t const bi = k - si;
                if (si < want_si && c[k] == src[si])
                {
                  next[si + 1] = 1;
                  any = true;
                }
                if (bi < before.size() && c[k] == before[bi])
                {
                  next[si] = 1;
                  any = true;
                }
              }
              reach.swap(next);
              good = any;
            }
            good = good && reach[want_si] != 0;
          }
          SIM_CHECK(good, "state-after-fault", "insertr: after a failed insertion of an input range the vector holds " + show(c) + ", which is not the old contents " + show(before) + " plus a prefix of the source");
          vs.model = c;
        }
        else
          resync_vector(s, {before}, "insertr");
      }
      ctx.ev("insertr v" + std::to_string(s) + " pos=" + std::to_string(pos) + " kind=" + std::to_string(kind) + " n=" + std::to_string(src.size()) + (ok ? "" : " threw"));
      return;
    }
    if (n == "erase1")
    {
      if (!vs.sut || vs.model.empty())
        return;
      RV &r = *vs.sut;
      std::size_t const pos = op.getu("pos") % vs.model.size();
      std::ptrdiff_t ret = -1;
      guarded([&] { ret = r.erase(r.begin() + static_cast<std::ptrdiff_t>(pos)) - r.begin(); });
      auto const mit = vs.model.erase(vs.model.begin() + static_cast<std::ptrdiff_t>(pos));
      SIM_CHECK(ret == mit - vs.model.begin(), "returned-iterator",
                "erase(pos) returned offset " + std::to_string(ret) + ", std::vector returns " +
                    std::to_string(mit - vs.model.begin()));
      ctx.ev("erase1 v" + std::to_string(s) + " pos=" + std::to_string(pos));
      return;
    }
    if (n == "erase")
    {
      if (!vs.sut)
        return;
      RV &r = *vs.sut;
      std::size_t const sz = vs.model.size();
      std::size_t const f = op.getu("first") % (sz + 1);
      std::size_t const l = f + op.getu("len") % (sz - f + 1);
      if (f == l)
        ctx.probe(f == sz ? "erase_empty_at_end" : "erase_empty_range");
      std::ptrdiff_t ret = -1;
      guarded([&] {
        ret = r.erase(r.begin() + static_cast<std::ptrdiff_t>(f), r.begin() + static_cast<std::ptrdiff_t>(l)) - r.begin();
      });
      auto const mit = vs.model.erase(vs.model.begin() + static_cast<std::ptrdiff_t>(f),
                                      vs.model.begin() + static_cast<std::ptrdiff_t>(l));
      SIM_CHECK(ret == mit - vs.model.begin(), "returned-iterator",
                "erase(first=" + std::to_string(f) + ", last=" + std::to_string(l) + ") of size " +
                    std::to_string(sz) + " returned offset " + std::to_string(ret) +
                    ", std::vector returns " + std::to_string(mit - vs.model.begin()));
      ctx.ev("erase v" + std::to_string(s) + " " + std::to_string(f) + ".." + std::to_string(l));
      return;
    }
    if (n == "resize")
    {
      if (!vs.sut)
        return;
      RV &r = *vs.sut;
      std::vector<T> const before = vs.model;
      std::size_t const cnt = op.getu("n") % (24U * scale);
      bool const alias = op.get("alias") != 0 && !before.empty();
      std::size_t const ai = alias ? op.getu("ai") % before.size() : 0;
      T const val = alias ? before[ai] : fresh();
      bool const ok = guarded([&] {
        if (alias)
          r.resize(cnt, r[ai]);
        else
          r.resize(cnt, val);
      });
      std::vector<T> after = before;
      after.resize(cnt, val);
      if (ok)
        vs.model = after;
      else
        resync_vector(s, {before}, "resize");
      ctx.ev("resize v" + std::to_string(s) + " n=" + std::to_string(cnt) + (ok ? "" : " threw"));
      return;
    }
    if (n == "reserve")
    {
      if (!vs.sut)
        return;
      RV &r = *vs.sut;
      std::size_t const cnt = op.getu("n") % (40U * scale);
      bool const ok = guarded([&] { r.reserve(cnt); });
      if (ok)
        SIM_CHECK(r.capacity() >= cnt, "reserve-capacity", "capacity " + std::to_string(r.capacity()) + " after reserve(" + std::to_string(cnt) + ")");
      ctx.ev("reserve v" + std::to_string(s) + " n=" + std::to_string(cnt) + (ok ? "" : " threw"));
      return;
    }
    if (n == "shrink")
    {
      if (!vs.sut)
        return;
      bool const ok = guarded([&] { vs.sut->shrink_to_fit(); });
      if (vs.sut->capacity() > vs.sut->size() && ok)
        ctx.probe("shrink_left_slack");
      ctx.ev("shrink v" + std::to_string(s) + (ok ? "" : " threw"));
      return;
    }
    if (n == "clear")
    {
      if (!vs.sut)
        return;
      if (vs.model.empty() && vs.sut->capacity() != 0)
        ctx.probe("clear_empty_with_capacity");
      guarded([&] { vs.sut->clear(); });
      vs.model.clear();
      ctx.ev("clear v" + std::to_string(s));
      return;
    }
    if (n == "swap")
    {
      if (!vs.sut || !v[t].sut || s == t)
        return;
      if (op.get("free") != 0)
        guarded([&] {
          using std::swap;
          swap(*vs.sut, *v[t].sut);
        });
      else
        guarded([&] { vs.sut->swap(*v[t].sut); });
      vs.model.swap(v[t].model);
      ctx.ev("swap v" + std::to_string(s) + " v" + std::to_string(t));
      return;
    }
    if (n == "move_ctor")
    {
      // v[t] = new object moved from v[s]
      if (!vs.sut || v[t].sut || s == t)
        return;
      if (!guarded([&] { v[t].sut = std::make_unique<RV>(std::move(*vs.sut)); }))
      {
        vs.model = contents(*vs.sut);
        return;
      }
      v[t].model = vs.model;
      // moved-from: valid but unspecified; read it back (must be readable and consistent)
      vs.model = contents(*vs.sut);
      if (vs.model.empty())
        ctx.probe("moved_from_empty");
      ctx.ev("move_ctor v" + std::to_string(s) + " -> v" + std::to_string(t));
      return;
    }
    if (n == "move_assign")
    {
      if (!vs.sut || !v[t].sut || s == t)
        return;
      if (!guarded([&] { *v[t].sut = std::move(*vs.sut); }))
      {
        vs.model = contents(*vs.sut);
        v[t].model = contents(*v[t].sut);
        return;
      }
      v[t].model = vs.model;
      vs.model = contents(*vs.sut);
      ctx.ev("move_assign v" + std::to_string(s) + " -> v" + std::to_string(t));
      return;
    }
    if (n == "compare")
    {
      if (!vs.sut || !v[t].sut)
        return;
      RV const &x = *vs.sut;
      RV const &y = *v[t].sut;
      std::vector<T> const &mx = vs.model;
      std::vector<T> const &my = v[t].model;
      bool eq = false, ne = false, lt = false, gt = false, le = false, ge = false;
      guarded([&] {
        eq = x == y;
        ne = x != y;
        lt = x < y;
        gt = x > y;
        le = x <= y;
        ge = x >= y;
      });
      SIM_CHECK(eq == (mx == my) && ne == (mx != my) && lt == (mx < my) && gt == (mx > my) &&
                    le == (mx <= my) && ge == (mx >= my),
                "comparison", "v" + std::to_string(s) + " vs v" + std::to_string(t));
      ctx.ev("compare " + std::to_string(eq) + std::to_string(lt));
      return;
    }
    if (n == "get_allocator")
    {
      if (!vs.sut)
        return;
      guarded([&] {
        A a = vs.sut->get_allocator();
        (void)a;
      });
      return;
    }

    // ---- buffer operations
    if (n == "b_ctor")
    {
      if (bsl.sut)
        return;
      std::size_t const cnt = op.getu("n") % (20U * scale);
      bool const ok = guarded([&] {
        bsl.sut = op.get("a") != 0 ? std::make_unique<Buf>(cnt, alloc) : std::make_unique<Buf>(cnt);
      });
      if (ok)
      {
        bsl.read.clear();
        bsl.wsize = cnt;
        if (cnt == 0)
          ctx.probe("buffer_size_zero");
      }
      ctx.ev("b_ctor b" + std::to_string(bs) + " n=" + std::to_string(cnt) + (ok ? "" : " threw"));
      return;
    }
    if (n == "b_destroy")
    {
      if (!bsl.sut)
        return;
      guarded([&] { bsl.sut.reset(); });
      bsl.read.clear();
      bsl.wsize = 0;
      ctx.ev("b_destroy b" + std::to_string(bs));
      return;
    }
    if (n == "b_resize_write")
    {
      if (!bsl.sut)
        return;
      std::size_t const cnt = op.getu("n") % (24U * scale);
      bool const ok = guarded([&] { bsl.sut->resize_write_area(cnt); });
      if (ok)
        bsl.wsize = cnt;
      ctx.ev("b_resize_write b" + std::to_string(bs) + " n=" + std::to_string(cnt) + (ok ? "" : " threw"));
      return;
    }
    if (n == "b_fill")
    {
      if (!bsl.sut)
        return;
      std::size_t const k = op.getu("n") % (bsl.wsize + 1);
      std::vector<T> const src = fresh_n(k);
      guarded([&] {
        std::copy(src.begin(), src.end(), bsl.sut->write_data());
        bsl.sut->written(k);
      });
      bsl.read.insert(bsl.read.end(), src.begin(), src.end());
      bsl.wsize -= k;
      ctx.ev("b_fill b" + std::to_string(bs) + " k=" + std::to_string(k));
      return;
    }
    if (n == "b_append" || n == "b_append_opt")
    {
      // append_from(_opt)(std::move(buffer), size, reader): the reader may be short, fail, throw
      if (!bsl.sut)
        return;
      std::size_t const cnt = op.getu("n") % (16U * scale);
      std::size_t const got = op.getu("got") % (cnt + 1); // short read
      bool const none = n == "b_append_opt" && op.get("none") != 0;
      std::vector<T> const src = fresh_n(got);
      std::vector<T> const before = bsl.read;
      std::size_t const wbefore = bsl.wsize;
      bool reader_called = false;
      std::size_t reader_size = 0;
      std::unique_ptr<Buf> result;
      bool result_nothing = false;
      auto reader_plain = [&](T *data, std::size_t size) -> std::size_t {
        reader_called = true;
        reader_size = size;
        if (sim::fault::hit(sim::fault::reader))
          throw sim::Fault{"simulated reader failure"};
        std::copy(src.begin(), src.end(), data);
        return got;
      };
      auto reader_opt = [&](T *data, std::size_t size) -> fcppt::optional::object<std::size_t> {
        reader_called = true;
        reader_size = size;
        if (sim::fault::hit(sim::fault::reader))
          throw sim::Fault{"simulated reader failure"};
        if (none)
          return fcppt::optional::object<std::size_t>{};
        std::copy(src.begin(), src.end(), data);
        return fcppt::optional::object<std::size_t>{got};
      };
      if (got < cnt)
        ctx.probe("short_read");
      if (none)
        ctx.probe("reader_none");
      bool const ok = guarded([&] {
        if (n == "b_append")
          result = std::make_unique<Buf>(fcppt::container::buffer::append_from(std::move(*bsl.sut), cnt, reader_plain));
        else
        {
          fcppt::optional::object<Buf> r = fcppt::container::buffer::append_from_opt(std::move(*bsl.sut), cnt, reader_opt);
          if (r.has_value())
            result = std::make_unique<Buf>(std::move(r.get_unsafe()));
          else
            result_nothing = true;
        }
      });
      if (ok && !result_nothing)
      {
        SIM_CHECK(reader_called && reader_size == cnt, "reader-arguments", n);
        // (the moved-from source is only required to be valid: if it still claimed the storage, the
        // ledger would see the block freed twice)
        bsl.sut = std::move(result);
        bsl.read = before;
        bsl.read.insert(bsl.read.end(), src.begin(), src.end());
        bsl.wsize = cnt - got;
      }
      else if (ok && result_nothing)
      {
        SIM_CHECK(none, "spurious-nothing", n + " returned nothing although the reader succeeded");
        // un-acknowledged: the argument was passed as an rvalue, so the caller's object is only
        // required to be valid afterwards (an implementation may keep it intact or consume it):
        // read it back; ledger and ASan decide about leaks and double frees
        Buf const &old = *bsl.sut;
        bsl.read = contents(old);
        bsl.wsize = old.write_size();
        if (bsl.read == before)
          ctx.probe("failed_append_left_source_intact");
      }
      else
      {
        // threw (bad_alloc while growing, or the reader's own exception): same rule
        (void)wbefore;
        Buf const &old = *bsl.sut;
        bsl.read = contents(old);
        bsl.wsize = old.write_size();
      }
      ctx.ev(n + " b" + std::to_string(bs) + " n=" + std::to_string(cnt) + " got=" + std::to_string(got) + (none ? " none" : "") + (ok ? "" : " threw"));
      return;
    }
    if (n == "b_read" || n == "b_read_opt")
    {
      // read_from(_opt)<Buffer>(size, reader) creates a new buffer in an empty slot
      if (bsl.sut)
        return;
      std::size_t const cnt = op.getu("n") % (16U * scale);
      std::size_t const got = op.getu("got") % (cnt + 1);
      bool const none = n == "b_read_opt" && op.get("none") != 0;
      std::vector<T> const src = fresh_n(got);
      bool result_nothing = false;
      auto reader_plain = [&](T *data, std::size_t) -> std::size_t {
        if (sim::fault::hit(sim::fault::reader))
          throw sim::Fault{"simulated reader failure"};
        std::copy(src.begin(), src.end(), data);
        return got;
      };
      auto reader_opt = [&](T *data, std::size_t) -> fcppt::optional::object<std::size_t> {
        if (sim::fault::hit(sim::fault::reader))
          throw sim::Fault{"simulated reader failure"};
        if (none)
          return fcppt::optional::object<std::size_t>{};
        std::copy(src.begin(), src.end(), data);
        return fcppt::optional::object<std::size_t>{got};
      };
      if (none)
        ctx.probe("reader_none");
      bool const ok = guarded([&] {
        if (n == "b_read")
          bsl.sut = std::make_unique<Buf>(fcppt::container::buffer::read_from<Buf>(cnt, reader_plain));
        else
        {
          fcppt::optional::object<Buf> r = fcppt::container::buffer::read_from_opt<Buf>(cnt, reader_opt);
          if (r.has_value())
            bsl.sut = std::make_unique<Buf>(std::move(r.get_unsafe()));
          else
            result_nothing = true;
        }
      });
      if (ok && !result_nothing)
      {
        bsl.read = src;
        bsl.wsize = cnt - got;
      }
      else
      {
        if (ok)
          SIM_CHECK(none, "spurious-nothing", n);
        SIM_CHECK(!bsl.sut, "failed-read-but-object-exists", n);
      }
      ctx.ev(n + " b" + std::to_string(bs) + " n=" + std::to_string(cnt) + " got=" + std::to_string(got) + (none ? " none" : "") + (ok ? "" : " threw"));
      return;
    }
    if (n == "b_swap")
    {
      if (!bsl.sut || !b[bt].sut || bs == bt)
        return;
      if (op.get("free") != 0)
        guarded([&] {
          using std::swap;
          swap(*bsl.sut, *b[bt].sut);
        });
      else
        guarded([&] { bsl.sut->swap(*b[bt].sut); });
      bsl.read.swap(b[bt].read);
      std::swap(bsl.wsize, b[bt].wsize);
      ctx.ev("b_swap");
      return;
    }
    if (n == "b_move_ctor")
    {
      if (!bsl.sut || b[bt].sut || bs == bt)
        return;
      guarded([&] { b[bt].sut = std::make_unique<Buf>(std::move(*bsl.sut)); });
      b[bt].read = bsl.read;
      b[bt].wsize = bsl.wsize;
      Buf const &old = *bsl.sut;
      bsl.read = contents(old);
      bsl.wsize = old.write_size();
      ctx.ev("b_move_ctor");
      return;
    }
    if (n == "b_move_assign")
    {
      if (!bsl.sut || !b[bt].sut || bs == bt)
        return;
      guarded([&] { *b[bt].sut = std::move(*bsl.sut); });
      b[bt].read = bsl.read;
      b[bt].wsize = bsl.wsize;
      Buf const &old = *bsl.sut;
      bsl.read = contents(old);
      bsl.wsize = old.write_size();
      ctx.ev("b_move_assign");
      return;
    }
    if (n == "b_to_vector")
    {
      // to_raw_vector(std::move(buffer)) into an empty vector slot: exactly the read area
      if (!bsl.sut || vs.sut)
        return;
      void const *const storage = static_cast<Buf const &>(*bsl.sut).read_data();
      if (!guarded([&] {
            vs.sut = std::make_unique<RV>(fcppt::container::buffer::to_raw_vector(std::move(*bsl.sut)));
          }))
      {
        // (a conversion that allocates may fail: the buffer is read back, no vector was created)
        Buf const &old0 = *bsl.sut;
        bsl.read = contents(old0);
        bsl.wsize = old0.write_size();
        return;
      }
      vs.model = bsl.read;
      if (static_cast<void const *>(vs.sut->data()) == storage)
        ctx.probe("to_vector_handed_over_storage");
      ctx.probe(bsl.wsize != 0 ? "to_vector_with_write_area" : "to_vector_full");
      // the released buffer is only required to be valid; read it back
      Buf const &old = *bsl.sut;
      bsl.read = contents(old);
      bsl.wsize = old.write_size();
      ctx.ev("b_to_vector b" + std::to_string(bs) + " -> v" + std::to_string(s));
      return;
    }
    if (n == "dyn_array")
    {
      // container::dynamic_array: one allocation of exactly n elements, released on destruction
      using DA = fcppt::container::dynamic_array<T, A>;
      std::size_t const cnt = op.getu("n") % (24U * scale);
      std::size_t const before = sim::ledger().live.size();
      std::unique_ptr<DA> da;
      bool const ok = guarded([&] { da = op.get("a") != 0 ? std::make_unique<DA>(cnt, alloc) : std::make_unique<DA>(cnt); });
      if (ok)
      {
        DA const &cda = *da;
        SIM_CHECK(da->size() == cnt && static_cast<std::size_t>(da->data_end() - da->data()) == cnt && cda.data() == da->data() && cda.data_end() == da->data_end(), "dynamic_array-extent", n);
        if (cnt != 0 || da->data() != nullptr)
        {
          auto it = sim::ledger().live.find(static_cast<void *>(da->data()));
          SIM_CHECK(it != sim::ledger().live.end() && it->second >= cnt, "ledger:capacity-mismatch", "dynamic_array block");
        }
        std::vector<T> const src = fresh_n(cnt);
        std::copy(src.begin(), src.end(), da->data());
        SIM_CHECK(std::equal(src.begin(), src.end(), cda.data()), "dynamic_array-contents", n);
        guarded([&] { da.reset(); });
      }
      SIM_CHECK(sim::ledger().live.size() == before, "ledger:leak", "dynamic_array left a block behind");
      ctx.ev("dyn_array n=" + std::to_string(cnt) + (ok ? "" : " threw"));
      return;
    }
    if (n == "read_chars")
    {
      // io::read_chars over a simulated stream (std::allocator inside; checked by result only)
      std::size_t const len = op.getu("len") % 24;
      std::size_t const cnt = op.getu("n") % (24U * scale);
      std::size_t const chunk = op.getu("chunk") % 8;
      std::string text;
      for (std::size_t i = 0; i < len; ++i)
        text.push_back(static_cast<char>('a' + (counter++ % 26)));
      sim::StreamBuf<char> sb(text, chunk);
      std::istream is(&sb);
      fcppt::io::optional_buffer res;
      bool const ok = guarded([&] { res = fcppt::io::read_chars(is, cnt); });
      if (ok)
      {
        // the read error matters only if it struck before the requested characters were delivered
        bool const faulted = sb.threw() && sb.fault_pos() < cnt;
        if (res.has_value())
        {
          auto const &rv = res.get_unsafe();
          std::string const got(rv.begin(), rv.end());
          SIM_CHECK(!faulted, "value-after-read-error", "read_chars returned data although the stream failed");
          // ("tries to read count chars": on a short file nothing, or exactly what was there)
          SIM_CHECK(got == text.substr(0, std::min(cnt, len)), "read_chars-contents",
                    "got '" + got + "' from '" + text + "' count " + std::to_string(cnt));
        }
        else
          SIM_CHECK(faulted || cnt > len, "read_chars-spurious-nothing",
                    "nothing although " + std::to_string(cnt) + " of " + std::to_string(len) + " characters were available");
        if (faulted)
          ctx.probe("read_chars_stream_failed");
        if (cnt > len)
          ctx.probe("read_chars_short_file");
      }
      ctx.ev("read_chars len=" + std::to_string(len) + " n=" + std::to_string(cnt) + (res.has_value() ? " value" : " nothing") + (ok ? "" : " threw"));
      return;
    }
    sim::violate("harness", "unknown op " + n);
  }

  void run(sim::Plan const &plan)
  {
    sim::ledger().reset();
    scale = plan.cfg.getu("scale", 1) == 0 ? 1 : plan.cfg.getu("scale", 1);
    if (scale > 1)
      ctx.probe("large_counts_run");
    if (scale >= 32768)
      ctx.probe("huge_counts_run");
    unsigned effective = 0;
    for (sim::Op const &op : plan.ops)
    {
      sim::fault::begin_op(op);
      std::uint64_t const ev0 = ctx.events;
      if (ctx.trace)
        std::printf("op %s   state: %s\n", op.str().c_str(), state_str().c_str());
      run_op(op);
      if (ctx.events != ev0)
        ++effective;
      check_all(op.name.c_str());
      // (the distinct-states measure renders every element: in huge runs sizes have to do)
      if (scale >= 32768)
      {
        std::string sizes;
        for (unsigned k = 0; k < VSLOTS; ++k)
          sizes += v[k].sut ? "v" + std::to_string(v[k].model.size()) + " " : "";
        ctx.state(sizes);
      }
      else
        ctx.state(state_str());
      ctx.end_op();
    }
    // teardown: everything destroyed, ledger empty
    {
      sim::fault::begin_op(sim::Op("teardown"));
      sim::fault::Sut sut;
      for (auto &sl : v)
        sl.sut.reset();
      for (auto &sl : b)
        sl.sut.reset();
    }
    sim::Ledger &l = sim::ledger();
    SIM_CHECK(l.error.empty(), l.error.substr(0, l.error.find(' ')), "teardown " + l.error);
    SIM_CHECK(l.live.empty(), "ledger:leak", "blocks still live after all objects were destroyed: " + std::to_string(l.live.size()));
    ctx.nontrivial = effective >= 3;
  }
};
}

namespace prop
{
void warmup() {}

void generate(sim::Rng &rng, sim::Plan &p, bool thorough)
{
  (void)thorough;
  p.cfg.set("type", static_cast<long>(rng.below(3)));
  // swarm: most runs use small counts; some 8 times, a few 64 times larger ones (growth policy and
  // reallocation at sizes of several kilobytes)
  unsigned const sc = static_cast<unsigned>(rng.below(16));
  // ... and one run in 300 is huge (blocks beyond a megabyte, where an implementation may switch
  // to another growth policy); those runs are short
  bool const huge = rng.chance(1, 300);
  long const scale = huge ? 32768 : (sc == 0 ? 64 : (sc <= 2 ? 8 : 1));
  bool const big = scale != 1;
  if (big)
    p.cfg.set("scale", scale);
  bool const faulty = rng.chance(1, 2);
  if (faulty)
    p.cfg.set("faulty", 1);
  // swarm: per-run weights
  static char const *const vops[] = {
      "ctor_default", "ctor_alloc", "ctor_n", "ctor_range", "ctor_il", "destroy", "push_back",
      "pop_back", "insert1", "insertn", "insertr", "erase1", "erase", "resize", "reserve",
      "shrink", "clear", "swap", "move_ctor", "move_assign", "compare", "get_allocator"};
  static char const *const bops[] = {
      "b_ctor", "b_destroy", "b_resize_write", "b_fill", "b_append", "b_append_opt", "b_read",
      "b_read_opt", "b_swap", "b_move_ctor", "b_move_assign", "b_to_vector", "read_chars", "dyn_array"};
  std::vector<std::string> bag;
  unsigned const mode = static_cast<unsigned>(rng.below(4)); // 0 vector only, 1 buffer heavy, 2/3 mixed
  for (auto const *o : vops)
  {
    unsigned w = mode == 1 ? 1 : static_cast<unsigned>(rng.below(4));
    std::string const n = o;
    if (n == "push_back" || n == "insert1" || n == "insertn" || n == "insertr")
      w += 2;
    if (n == "destroy" || n == "clear")
      w = std::min(w, 1U);
    for (unsigned i = 0; i < w; ++i)
      bag.push_back(n);
  }
  if (mode != 0)
    for (auto const *o : bops)
    {
      unsigned w = static_cast<unsigned>(rng.below(4)) + (mode == 1 ? 2 : 0);
      for (unsigned i = 0; i < w; ++i)
        bag.push_back(o);
    }
  if (bag.empty())
    bag.push_back("push_back");
  if (huge)
  {
    // grow by whole blocks, then shrink: count constructor, resize, range erase, clear, reserve
    bag.clear();
    for (char const *o : {"ctor_n", "ctor_n", "resize", "resize", "resize", "erase", "erase", "erase", "clear", "reserve", "insertn", "shrink", "push_back", "destroy"})
      bag.push_back(o);
  }
  unsigned const len = static_cast<unsigned>(huge ? rng.range(2, 8) : rng.range(1, 60));
  // start from every constructor
  {
    static char const *const ctors[] = {"ctor_default", "ctor_alloc", "ctor_n", "ctor_range", "ctor_il"};
    sim::Op op(ctors[rng.below(5)]);
    op.set("s", 0).set("n", static_cast<long>(rng.below(20))).set("k", static_cast<long>(rng.below(3))).set("a", static_cast<long>(rng.below(2)));
    p.ops.push_back(op);
  }
  // (huge runs are rare and short: when they inject faults, they inject many)
  unsigned const fault_pct = faulty ? (huge ? 45U : static_cast<unsigned>(rng.range(2, 15))) : 0;
  for (unsigned i = 0; i < len; ++i)
  {
    sim::Op op(rng.pick(bag));
    std::string const &n = op.name;
    if (n.compare(0, 2, "b_") == 0)
    {
      op.set("b", static_cast<long>(rng.below(BSLOTS)));
      if (n == "b_swap" || n == "b_move_ctor" || n == "b_move_assign")
        op.set("bt", static_cast<long>(rng.below(BSLOTS)));
      if (n == "b_swap")
        op.set("free", static_cast<long>(rng.below(2)));
      if (n == "b_to_vector")
        op.set("s", static_cast<long>(rng.below(VSLOTS)));
      if (n == "b_ctor" || n == "b_resize_write" || n == "b_fill" || n == "b_append" || n == "b_append_opt" || n == "b_read" || n == "b_read_opt")
        op.set("n", static_cast<long>(rng.below(24)));
      if (n == "b_ctor")
        op.set("a", static_cast<long>(rng.below(2)));
      if (n == "b_append" || n == "b_append_opt" || n == "b_read" || n == "b_read_opt")
      {
        // mostly full reads, sometimes short
        op.set("got", rng.chance(2, 3) ? op.get("n") % 16 : static_cast<long>(rng.below(17)));
        if (n == "b_append_opt" || n == "b_read_opt")
          op.set("none", rng.chance(1, 4) ? 1 : 0);
      }
    }
    else if (n == "dyn_array")
    {
      op.set("n", static_cast<long>(rng.below(24))).set("a", static_cast<long>(rng.below(2)));
    }
    else if (n == "read_chars")
    {
      op.set("len", static_cast<long>(rng.below(24))).set("n", static_cast<long>(rng.below(24))).set("chunk", static_cast<long>(rng.below(8)));
    }
    else
    {
      op.set("s", static_cast<long>(huge && rng.chance(3, 4) ? 0 : rng.below(VSLOTS)));
      if (n == "swap" || n == "move_ctor" || n == "move_assign" || n == "compare" || n == "insertr")
        op.set("t", static_cast<long>(rng.below(VSLOTS)));
      if (n == "swap")
        op.set("free", static_cast<long>(rng.below(2)));
      if (n == "ctor_n" || n == "ctor_range" || n == "ctor_il" || n == "insertn" || n == "insertr" || n == "resize" || n == "reserve")
        op.set("n", static_cast<long>(rng.below(static_cast<std::uint64_t>(40 * scale))));
      if (n == "ctor_range" || n == "insertr")
      {
        op.set("k", static_cast<long>(rng.below(4)));
        if (rng.chance(1, 3))
          op.set("ot", 1);
      }
      if (n == "ctor_n" || n == "ctor_range")
        op.set("a", static_cast<long>(rng.below(2)));
      if (n == "insert1" || n == "insertn" || n == "insertr" || n == "erase1")
        op.set("pos", static_cast<long>(rng.below(64)));
      if (n == "erase")
        // (in runs with large counts the erased range is large too: most of a big vector goes)
        op.set("first", static_cast<long>(rng.below(64))).set("len", static_cast<long>(rng.below(static_cast<std::uint64_t>(64 * scale))));
      if (n == "push_back" || n == "insert1" || n == "insertn" || n == "resize")
        if (rng.chance(1, 3))
          op.set("alias", 1).set("ai", static_cast<long>(rng.below(64)));
    }
    if (fault_pct != 0 && rng.below(100) < fault_pct)
    {
      bool const reader_op = n == "insertr" || n == "ctor_range" || n == "b_append" || n == "b_append_opt" || n == "b_read" || n == "b_read_opt";
      if (n == "read_chars")
        op.sets("fault", "underflow:" + std::to_string(rng.range(1, 3)));
      else if (reader_op && rng.chance(1, 2))
        op.sets("fault", "reader:" + std::to_string(rng.range(1, 6)));
      else
        op.sets("fault", "alloc:" + std::to_string(huge ? 1 : rng.range(1, 3)));
    }
    p.ops.push_back(op);
  }
}

void execute(sim::Plan const &p, sim::Ctx &ctx)
{
  switch (p.cfg.getu("type") % 3)
  {
  case 0:
  {
    World<unsigned char> w(ctx);
    w.run(p);
    break;
  }
  case 1:
  {
    World<int> w(ctx);
    w.run(p);
    break;
  }
  default:
  {
    World<P12> w(ctx);
    w.run(p);
    break;
  }
  }
}
}

int main(int argc, char **argv) { return sim::sim_main(argc, argv); }
