// Shared by the two engines of C12: result summaries, the nine compound grammars, text decoding.
#ifndef SIM_PROPS_C12_COMMON_HPP
#define SIM_PROPS_C12_COMMON_HPP
#include <fcppt/make_ref.hpp>
#include <fcppt/reference_to_base.hpp>
#include <fcppt/unit.hpp>
#include <fcppt/either/object.hpp>
#include <fcppt/optional/object.hpp>
#include <fcppt/parse/basic_char.hpp>
#include <fcppt/parse/basic_char_set.hpp>
#include <fcppt/parse/basic_literal.hpp>
#include <fcppt/parse/basic_string.hpp>
#include <fcppt/parse/basic_stream_impl.hpp>
#include <fcppt/parse/error.hpp>
#include <fcppt/parse/get_char.hpp>
#include <fcppt/parse/get_position.hpp>
#include <fcppt/parse/make_fatal.hpp>
#include <fcppt/parse/phrase_parse.hpp>
#include <fcppt/parse/phrase_parse_stream.hpp>
#include <fcppt/parse/position.hpp>
#include <fcppt/parse/set_position.hpp>
#include <fcppt/parse/detail/exception.hpp>
#include <fcppt/parse/detail/stream_impl.hpp>
#include <fcppt/parse/operators/alternative.hpp>
#include <fcppt/parse/operators/complement.hpp>
#include <fcppt/parse/operators/not.hpp>
#include <fcppt/parse/operators/optional.hpp>
#include <fcppt/parse/operators/repetition.hpp>
#include <fcppt/parse/operators/repetition_plus.hpp>
#include <fcppt/parse/operators/sequence.hpp>
#include <fcppt/parse/space_set.hpp>
#include <fcppt/parse/skipper/basic_char_set.hpp>
#include <fcppt/parse/skipper/operators/repetition.hpp>
#include <fcppt/parse/skipper/epsilon.hpp>
#include <fcppt/tuple/object.hpp>
#include <fcppt/variant/object.hpp>
#include <cstdio>
#include <fstream>
#include <memory>
#include <sstream>
#include <string>
#include <tuple>
#include <unistd.h>
#include <variant>
#include <vector>

namespace
{

// ---- summaries of parse results (so that results of different grammars are comparable)
template <typename Ch>
void summ(std::string &o, Ch c)
  requires(std::is_same_v<Ch, char> || std::is_same_v<Ch, wchar_t>)
{
  o += std::to_string(static_cast<long>(c)) + ".";
}
inline void summ(std::string &o, fcppt::unit const &) { o += "u"; }
template <typename Ch>
void summ(std::string &o, std::basic_string<Ch> const &s)
{
  o += "\"";
  for (Ch c : s)
    summ(o, c);
  o += "\"";
}
template <typename T>
void summ(std::string &o, std::vector<T> const &v);
template <typename... Ts>
void summ(std::string &o, fcppt::tuple::object<Ts...> const &t);
template <typename T>
void summ(std::string &o, fcppt::optional::object<T> const &t);
template <typename... Ts>
void summ(std::string &o, fcppt::variant::object<Ts...> const &t);

template <typename T>
void summ(std::string &o, std::vector<T> const &v)
{
  o += "[";
  for (auto const &x : v)
    summ(o, x);
  o += "]";
}
template <typename... Ts>
void summ(std::string &o, fcppt::tuple::object<Ts...> const &t)
{
  o += "(";
  std::apply([&o](auto const &...x) { (summ(o, x), ...); }, t.impl());
  o += ")";
}
template <typename T>
void summ(std::string &o, fcppt::optional::object<T> const &t)
{
  if (t.has_value())
  {
    o += "?";
    summ(o, t.get_unsafe());
  }
  else
    o += "?-";
}
template <typename... Ts>
void summ(std::string &o, fcppt::variant::object<Ts...> const &t)
{
  o += "<" + std::to_string(t.impl().index()) + ":";
  std::visit([&o](auto const &x) { summ(o, x); }, t.impl());
  o += ">";
}

template <typename Ch>
std::string narrow_msg(std::basic_string<Ch> const &s)
{
  std::string r;
  for (Ch c : s)
    r.push_back(static_cast<unsigned long>(c) < 128 ? static_cast<char>(c) : '?');
  return r;
}

template <typename Ch, typename R>
std::string summarize(fcppt::either::object<fcppt::parse::error<Ch>, R> const &r)
{
  if (r.has_failure())
    return std::string(r.get_failure_unsafe().is_fatal() ? "FATAL:" : "F:") + narrow_msg(r.get_failure_unsafe().get());
  std::string o = "S:";
  summ(o, r.get_success_unsafe());
  return o;
}

template <typename Ch>
struct Grammars
{
  using stream_t = fcppt::parse::basic_stream<Ch>;
  using lit = fcppt::parse::basic_literal<Ch>;
  using cset = fcppt::parse::basic_char_set<Ch>;
  using chr = fcppt::parse::basic_char<Ch>;
  using str = fcppt::parse::basic_string<Ch>;
  static constexpr unsigned COUNT = 9;

  template <typename Skipper>
  static std::string run_with(unsigned g, stream_t &s, Skipper const &sk)
  {
    namespace P = fcppt::parse;
    Ch const A = Ch('a'), NL = Ch('\n'), SP = Ch(' '), TB = Ch('\t');
    switch (g % COUNT)
    {
    case 0:
      return summarize<Ch>(P::phrase_parse(*chr{}, s, sk));
    case 1:
      return summarize<Ch>(P::phrase_parse(+cset{A, SP}, s, sk));
    case 2:
      return summarize<Ch>(P::phrase_parse(*(lit{A} | lit{NL}), s, sk));
    case 3:
      return summarize<Ch>(P::phrase_parse(str{std::basic_string<Ch>{A, NL, A}} | str{std::basic_string<Ch>{A, NL, NL}}, s, sk));
    case 4:
      return summarize<Ch>(P::phrase_parse(*(!lit{NL} >> chr{}), s, sk));
    case 5:
      return summarize<Ch>(P::phrase_parse(-lit{A} >> *~cset{NL}, s, sk));
    case 6:
      return summarize<Ch>(P::phrase_parse(*(cset{A} >> -lit{NL}), s, sk));
    case 7:
      return summarize<Ch>(P::phrase_parse(P::make_fatal(lit{A}) | chr{}, s, sk));
    default:
      return summarize<Ch>(P::phrase_parse(*(cset{A, TB} | (lit{SP} >> cset{A, NL, SP})), s, sk));
    }
  }
  static std::string run(unsigned g, unsigned skipper, stream_t &s)
  {
    if (skipper % 2 == 0)
      return run_with(g, s, fcppt::parse::skipper::epsilon());
    // (skipper::basic_space<Ch> only compiles for char: it is spelled with skipper::char_set)
    return run_with(g, s, *fcppt::parse::skipper::basic_char_set<Ch>{fcppt::parse::space_set<Ch>()});
  }
};

inline std::string decode_text(std::string const &enc)
{
  std::string r;
  for (char c : enc)
    r.push_back(c == 'N' ? '\n' : c == 'S' ? ' ' : c == 'T' ? '\t' : c == 'R' ? '\r' : c == 'X' ? '\xe9' : c == 'Y' ? '\xff' : c == 'W' ? '\x01' : c == 'Z' ? '\0' : c == '_' ? '\0' : 'a');
  if (enc == "_")
    r.clear();
  return r;
}

}
#endif
