// C19 (a): log levels follow "latest setting on a prefix wins" for every sequential history of
//      set / get / object creation / log, with allocation failures and failing sinks injected.
#include <fcppt/make_ref.hpp>
#include <fcppt/enum/array_init.hpp>
#include <fcppt/log/context.hpp>
#include <fcppt/log/context_reference.hpp>
#include <fcppt/log/level.hpp>
#include <fcppt/log/level_stream.hpp>
#include <fcppt/log/level_stream_array.hpp>
#include <fcppt/log/location.hpp>
#include <fcppt/log/name.hpp>
#include <fcppt/log/object.hpp>
#include <fcppt/log/optional_level.hpp>
#include <fcppt/log/out.hpp>
#include <fcppt/log/parameters.hpp>
#include <fcppt/log/detail/temporary_output.hpp>
#include <fcppt/log/format/default_level.hpp>
#include <fcppt/log/format/function.hpp>
#include <fcppt/log/format/optional_function.hpp>
#include <memory>
#include <ostream>
#include <string>
#include <vector>
#include "c19_common.hpp"
#include "core/main.hpp"
#include "seams/alloc.hpp"
#include "seams/streambuf.hpp"

namespace prop
{
char const *const id = "C19-seq";
}

namespace
{
constexpr unsigned OBJS = 6;
using namespace c19;

struct World
{
  sim::Ctx &ctx;
  explicit World(sim::Ctx &c) : ctx(c) {}

  std::unique_ptr<sim::StreamBuf<char>> sinkbuf[6];
  std::unique_ptr<std::ostream> sink[6];
  std::size_t seen[6] = {};
  bool sink_failed[6] = {};
  bool sink_exceptions = false; // the sinks have exceptions(badbit | failbit) set
  std::unique_ptr<fcppt::log::context> context;
  unsigned level_formatters = 63; // bit l: the level stream of level l has its own (default) formatter
  Model model{NONE};

  struct Obj
  {
    std::unique_ptr<fcppt::log::object> o;
    std::vector<unsigned> path;
    bool user_formatter = false;
  };
  Obj objs[OBJS];

  template <typename F>
  bool guarded(std::string const &n, F &&f)
  {
    try
    {
      sim::fault::Sut s;
      f();
      return true;
    }
    catch (std::bad_alloc const &)
    {
      SIM_CHECK(sim::fault::fired(sim::fault::alloc), "undocumented-exception", n + ": bad_alloc without an injected allocation failure");
      ctx.probe("op_threw_bad_alloc");
      return false;
    }
  }

  // harness observation (not subject to faults)
  int observe(std::vector<unsigned> const &p) { return from_level(context->get(make_location(p))); }

  void check_all_levels(std::string const &when)
  {
    for (unsigned k = 0; k < LOCS; ++k)
    {
      std::vector<unsigned> const p = path_of(k);
      int const got = observe(p);
      SIM_CHECK(got == model.level[k], "model", when + ": context.get(" + path_str(p) + ") is " + level_name(got) + ", the latest set on a prefix gives " + level_name(model.level[k]));
    }
    for (Obj &ob : objs)
      if (ob.o)
      {
        int const got = from_level(ob.o->level());
        int const want = model.get(ob.path);
        SIM_CHECK(got == want, "model", when + ": object at " + path_str(ob.path) + " reports " + level_name(got) + ", expected " + level_name(want));
      }
  }

  // after a set that was interrupted by bad_alloc: every location holds the old or the new level
  void resync_after_failed_set(std::vector<unsigned> const &s, int v, std::string const &when)
  {
    for (unsigned k = 0; k < LOCS; ++k)
    {
      std::vector<unsigned> const p = path_of(k);
      int const got = observe(p);
      int const old = model.level[k];
      int const neu = is_prefix(s, p) ? v : old;
      SIM_CHECK(got == old || got == neu, "state-after-fault", when + ": after an interrupted set " + path_str(p) + " has level " + level_name(got) + ", neither the old (" + level_name(old) + ") nor the new (" + level_name(neu) + ")");
      if (got != old)
        ctx.probe("interrupted_set_partially_applied");
      model.level[k] = got;
    }
  }

  void check_sinks_unchanged(std::string const &when, int except)
  {
    for (int l = 0; l < 6; ++l)
      if (l != except)
        SIM_CHECK(sinkbuf[l]->data().size() == seen[l], "emission", when + ": sink of level " + level_name(l) + " received output it must not receive");
  }

  void run_op(sim::Op const &op)
  {
    std::string const &n = op.name;
    if (n == "set")
    {
      std::vector<unsigned> const p = path_of(static_cast<unsigned>(op.getu("loc")));
      int const v = static_cast<int>(op.getu("lvl") % 7);
      bool const ok = guarded(n, [&] { context->set(make_location(p), to_level(v)); });
      if (ok)
        model.set(p, v);
      else
        resync_after_failed_set(p, v, n);
      ctx.ev("set " + path_str(p) + " " + level_name(v) + (ok ? "" : " threw"));
      return;
    }
    if (n == "get")
    {
      std::vector<unsigned> const p = path_of(static_cast<unsigned>(op.getu("loc")));
      int got = -1;
      bool const ok = guarded(n, [&] { got = from_level(context->get(make_location(p))); });
      if (ok)
        SIM_CHECK(got == model.get(p), "model", "context.get(" + path_str(p) + ") is " + level_name(got) + ", the latest set on a prefix gives " + level_name(model.get(p)));
      ctx.ev("get " + path_str(p) + " -> " + level_name(got));
      return;
    }
    if (n == "obj_ctx" || n == "obj_loc" || n == "obj_parent")
    {
      int slot = -1;
      for (unsigned k = 0; k < OBJS; ++k)
        if (!objs[k].o)
        {
          slot = static_cast<int>(k);
          break;
        }
      if (slot < 0)
        return;
      unsigned const nm = static_cast<unsigned>(op.getu("name") % NAMES);
      bool const uf = op.get("fmt") != 0;
      auto params = [&] {
        return fcppt::log::parameters(
            fcppt::log::name{std::string(name_of(nm))},
            uf ? fcppt::log::format::optional_function{fcppt::log::format::function{[](std::string const &s) { return "<" + s + ">"; }}}
               : fcppt::log::format::optional_function{});
      };
      std::vector<unsigned> path;
      bool ok = false;
      Obj &dst = objs[slot];
      if (n == "obj_ctx")
      {
        path = {nm};
        ok = guarded(n, [&] { dst.o = std::make_unique<fcppt::log::object>(fcppt::make_ref(*context), params()); });
      }
      else if (n == "obj_loc")
      {
        // location of depth <= 2, so the object's own location has depth <= 3
        unsigned const li = static_cast<unsigned>(op.getu("loc") % 13);
        path = path_of(li);
        std::vector<unsigned> const base = path;
        path.push_back(nm);
        ok = guarded(n, [&] { dst.o = std::make_unique<fcppt::log::object>(fcppt::make_ref(*context), make_location(base), params()); });
      }
      else
      {
        std::vector<unsigned> cand;
        for (unsigned k = 0; k < OBJS; ++k)
          if (objs[k].o && objs[k].path.size() < DEPTH)
            cand.push_back(k);
        if (cand.empty())
          return;
        Obj &parent = objs[cand[op.getu("p") % cand.size()]];
        path = parent.path;
        path.push_back(nm);
        ok = guarded(n, [&] { dst.o = std::make_unique<fcppt::log::object>(*parent.o, params()); });
      }
      if (ok)
      {
        dst.path = path;
        dst.user_formatter = uf;
      }
      else
        SIM_CHECK(!dst.o, "ctor-threw-but-object-exists", n);
      ctx.ev(n + " " + path_str(path) + (uf ? " fmt" : "") + (ok ? "" : " threw"));
      return;
    }
    std::vector<unsigned> live;
    for (unsigned k = 0; k < OBJS; ++k)
      if (objs[k].o)
        live.push_back(k);
    if (live.empty())
      return;
    Obj &ob = objs[live[op.getu("o") % live.size()]];
    if (n == "obj_destroy")
    {
      guarded(n, [&] { ob.o.reset(); });
      ctx.ev("obj_destroy " + path_str(ob.path));
      return;
    }
    if (n == "level")
    {
      int got = -1;
      if (!guarded(n, [&] { got = from_level(ob.o->level()); }))
        return;
      SIM_CHECK(got == model.get(ob.path), "model", "object at " + path_str(ob.path) + " reports level " + level_name(got) + ", expected " + level_name(model.get(ob.path)));
      ctx.ev("level " + path_str(ob.path) + " -> " + level_name(got));
      return;
    }
    if (n == "enabled")
    {
      int const l = static_cast<int>(op.getu("l") % 6);
      bool got = false;
      if (!guarded(n, [&] { got = ob.o->enabled(static_cast<fcppt::log::level>(l)); }))
        return;
      int const cur = model.get(ob.path);
      bool const want = cur != NONE && l >= cur;
      SIM_CHECK(got == want, "enabled", "object at " + path_str(ob.path) + " with level " + level_name(cur) + ": enabled(" + level_name(l) + ") is " + std::to_string(got));
      ctx.ev("enabled " + path_str(ob.path) + " " + level_name(l) + " -> " + std::to_string(got));
      return;
    }
    if (n == "log")
    {
      int const l = static_cast<int>(op.getu("l") % 6);
      unsigned const tnum = static_cast<unsigned>(op.getu("txt") % 1000);
      std::string const text = "m" + std::to_string(tnum) + "|" + std::to_string(tnum * 7U);
      long const accept = sim::fault::st().target[sim::fault::accept];
      if (accept > 0)
        sinkbuf[l]->accept_limit(accept - 1);
      bool ok = false;
      try
      {
        ok = guarded(n, [&] { ob.o->log(static_cast<fcppt::log::level>(l), fcppt::log::out << "m" << tnum << '|' << tnum * 7U); });
      }
      catch (std::ios_base::failure const &)
      {
        // the sink is the caller's stream: with exceptions() enabled on it, a refused write is
        // reported to the caller by the stream itself
        SIM_CHECK(sink_exceptions && !sink[l]->good(), "undocumented-exception", "log threw std::ios_base::failure although no sink with exceptions enabled has failed");
        ctx.probe("sink_failure_thrown_to_the_caller");
      }
      if (accept > 0)
      {
        sinkbuf[l]->accept_limit(-1);
        if (sinkbuf[l]->write_refused())
        {
          sim::fault::st().fired[sim::fault::accept] = true;
          ++sim::fault::st().fired_total[sim::fault::accept];
        }
      }
      int const cur = model.get(ob.path);
      bool const want = cur != NONE && l >= cur;
      std::string expected;
      for (unsigned x : ob.path)
        expected += std::string(name_of(x)) + ": ";
      // format::default_level: prefix "<level>: ", suffix "\n"; a level stream without a
      // formatter of its own adds nothing
      expected += (level_formatters & (1U << l)) != 0 ? std::string(level_name(l)) + ": " + text + "\n" : text;
      if (ob.user_formatter)
        expected = "<" + expected + ">";
      check_sinks_unchanged(n, l);
      std::string const delta = sinkbuf[l]->data().substr(seen[l]);
      if (!sink[l]->good())
        sink_failed[l] = true;
      if (sink_failed[l])
      {
        // a failed sink: no exception, no crash; what was emitted is a prefix of the message
        SIM_CHECK(expected.compare(0, delta.size(), delta) == 0 || !want, "emission", "failed sink received '" + delta + "'");
        ctx.probe("log_to_failed_sink");
        // the caller repairs the sink (clear()): from now on messages must arrive again - a
        // failure of one write must not silence the logger for good
        sink[l]->clear();
        sink_failed[l] = false;
      }
      else if (!ok)
      {
        SIM_CHECK(delta.empty() || delta == expected, "emission", "interrupted log emitted '" + delta + "'");
      }
      else if (want)
      {
        SIM_CHECK(delta == expected, "message-text", "object at " + path_str(ob.path) + " level " + level_name(cur) + ": log(" + level_name(l) + ") emitted '" + delta + "', documented format gives '" + expected + "'");
        ctx.probe("message_emitted");
      }
      else
      {
        SIM_CHECK(delta.empty(), "emission", "object at " + path_str(ob.path) + " with level " + level_name(cur) + " emitted a message of level " + level_name(l) + ": '" + delta + "'");
        ctx.probe("message_suppressed");
      }
      seen[l] = sinkbuf[l]->data().size();
      ctx.ev("log " + path_str(ob.path) + " " + level_name(l) + " -> " + std::to_string(delta.size()) + (ok ? "" : " threw"));
      return;
    }
    sim::violate("harness", "unknown op " + n);
  }

  void run(sim::Plan const &plan)
  {
    long const live0 = sim::heap::live_sut();
    for (int l = 0; l < 6; ++l)
    {
      sinkbuf[l] = std::make_unique<sim::StreamBuf<char>>();
      sink[l] = std::make_unique<std::ostream>(sinkbuf[l].get());
    }
    sink_exceptions = plan.cfg.get("sexc") != 0;
    if (sink_exceptions)
    {
      for (int l = 0; l < 6; ++l)
        sink[l]->exceptions(std::ios_base::badbit | std::ios_base::failbit);
      ctx.probe("sinks_with_exceptions_enabled");
    }
    name_variant() = static_cast<unsigned>(plan.cfg.getu("nv") % 6);
    int const root = static_cast<int>(plan.cfg.getu("root") % 7);
    model = Model(root);
    level_formatters = static_cast<unsigned>(plan.cfg.get("lsf", 63)) & 63U;
    if (level_formatters != 63U)
      ctx.probe("level_streams_without_formatter");
    {
      sim::fault::begin_op(sim::Op("setup"));
      sim::fault::Sut s;
      context = std::make_unique<fcppt::log::context>(
          to_level(root),
          fcppt::enum_::array_init<fcppt::log::level_stream_array>([this](fcppt::log::level const l) {
            // a level stream's own formatter is optional: bit l of `lsf` says whether it has one
            return fcppt::log::level_stream(
                *sink[static_cast<unsigned>(l)],
                (level_formatters & (1U << static_cast<unsigned>(l))) != 0
                    ? fcppt::log::format::optional_function(fcppt::log::format::default_level(l))
                    : fcppt::log::format::optional_function());
          }));
    }
    unsigned effective = 0;
    for (sim::Op const &op : plan.ops)
    {
      sim::fault::begin_op(op);
      if (ctx.trace)
        std::printf("op %s\n", op.str().c_str());
      std::uint64_t const ev0 = ctx.events;
      run_op(op);
      if (ctx.events != ev0)
        ++effective;
      check_all_levels(op.name);
      check_sinks_unchanged(op.name, -1);
      {
        std::string st;
        for (int lv : model.level)
          st.push_back(static_cast<char>('0' + lv));
        for (Obj const &ob : objs)
          if (ob.o)
            st += path_str(ob.path);
        ctx.state(st);
      }
      ctx.end_op();
    }
    {
      sim::fault::begin_op(sim::Op("teardown"));
      sim::fault::Sut s;
      for (Obj &ob : objs)
        ob.o.reset();
      context.reset();
    }
    for (int l = 0; l < 6; ++l)
    {
      sink[l].reset();
      sinkbuf[l].reset();
    }
    SIM_CHECK(sim::heap::live_sut() == live0, "leak", "heap blocks allocated by the log library still live after teardown: " + std::to_string(sim::heap::live_sut() - live0));
    ctx.nontrivial = effective >= 3;
  }
};
}

namespace prop
{
void warmup()
{
  // one complete scenario, so that lazily initialised statics (enum name tables, locale facets)
  // exist before the first leak check
  sim::Plan p;
  p.cfg.set("root", 2);
  p.ops.push_back(sim::Op("obj_loc").set("loc", 5).set("name", 2).set("fmt", 1));
  p.ops.push_back(sim::Op("set").set("loc", 1).set("lvl", 1));
  p.ops.push_back(sim::Op("log").set("o", 0).set("l", 5).set("txt", 1));
  p.ops.push_back(sim::Op("obj_ctx").set("name", 0));
  p.ops.push_back(sim::Op("obj_parent").set("p", 1).set("name", 1));
  p.ops.push_back(sim::Op("enabled").set("o", 1).set("l", 1));
  p.property = prop::id;
  sim::detail::announce_warmup(p);
  sim::Ctx ctx;
  try
  {
    World w(ctx);
    w.run(p);
  }
  catch (...)
  {
  }
  sim::fault::st().in_sut = false;
}

void generate(sim::Rng &rng, sim::Plan &p, bool)
{
  bool const faulty = rng.chance(1, 2);
  if (faulty)
    p.cfg.set("faulty", 1);
  p.cfg.set("root", static_cast<long>(rng.below(7)));
  if (rng.chance(1, 3))
    p.cfg.set("nv", static_cast<long>(rng.range(1, 5)));
  if (rng.chance(1, 3))
    p.cfg.set("sexc", 1);
  if (rng.chance(1, 3))
    p.cfg.set("lsf", static_cast<long>(rng.chance(1, 3) ? 0 : rng.below(64)));
  static char const *const names[] = {"set", "get", "obj_ctx", "obj_loc", "obj_parent", "obj_destroy", "level", "enabled", "log"};
  std::vector<std::string> bag;
  for (auto const *o : names)
  {
    std::string const n = o;
    unsigned w = static_cast<unsigned>(rng.below(4));
    if (n == "set" || n == "log" || n == "obj_loc")
      w += 2;
    if (n == "obj_destroy")
      w = std::min(w, 1U);
    for (unsigned i = 0; i < w; ++i)
      bag.push_back(n);
  }
  unsigned const len = static_cast<unsigned>(rng.range(1, 60));
  unsigned const fault_pct = faulty ? static_cast<unsigned>(rng.range(2, 15)) : 0;
  for (unsigned i = 0; i < len; ++i)
  {
    sim::Op op(rng.pick(bag));
    std::string const &n = op.name;
    if (n == "set" || n == "get" || n == "obj_loc")
      op.set("loc", static_cast<long>(rng.below(LOCS)));
    if (n == "set")
      op.set("lvl", static_cast<long>(rng.below(7)));
    if (n == "obj_ctx" || n == "obj_loc" || n == "obj_parent")
      op.set("name", static_cast<long>(rng.below(NAMES))).set("fmt", static_cast<long>(rng.below(2)));
    if (n == "obj_parent")
      op.set("p", static_cast<long>(rng.below(8)));
    if (n == "obj_destroy" || n == "level" || n == "enabled" || n == "log")
      op.set("o", static_cast<long>(rng.below(8)));
    if (n == "enabled" || n == "log")
      op.set("l", static_cast<long>(rng.below(6)));
    if (n == "log")
      op.set("txt", static_cast<long>(rng.below(1000)));
    if (fault_pct != 0 && rng.below(100) < fault_pct)
    {
      if (n == "log" && rng.chance(1, 2))
        op.sets("fault", "accept:" + std::to_string(rng.range(1, 30)));
      else
        op.sets("fault", "alloc:" + std::to_string(rng.chance(1, 2) ? rng.range(1, 3) : rng.range(1, 12)));
    }
    p.ops.push_back(op);
  }
}

void execute(sim::Plan const &p, sim::Ctx &ctx)
{
  World w(ctx);
  w.run(p);
}
}

int main(int argc, char **argv) { return sim::sim_main(argc, argv); }
