// C15 (stream- and facet-facing subset): what is written reads back as the same value, or the
//      read reports failure - also when the write is torn, the file truncated, reads are chunked
//      or fail, and the codecvt facet returns partial results or errors.
#include <fcppt/assert/unreachable.hpp>
#include <fcppt/extract_from_string.hpp>
#include <fcppt/narrow.hpp>
#include <fcppt/narrow_locale.hpp>
#include <fcppt/widen.hpp>
#include <fcppt/from_std_wstring.hpp>
#include <fcppt/to_std_wstring.hpp>
#include <fcppt/string.hpp>
#include <fcppt/optional_string.hpp>
#include <fcppt/output_to_std_string.hpp>
#include <fcppt/output_to_std_wstring.hpp>
#include <fcppt/widen_locale.hpp>
#include <fcppt/endianness/convert.hpp>
#include <fcppt/endianness/swap.hpp>
#include <fcppt/enum/from_string.hpp>
#include <fcppt/enum/input.hpp>
#include <fcppt/enum/output.hpp>
#include <fcppt/enum/to_string.hpp>
#include <fcppt/enum/to_string_case.hpp>
#include <fcppt/enum/to_string_impl_fwd.hpp>
#include <fcppt/io/narrow_string_locale.hpp>
#include <fcppt/io/read.hpp>
#include <fcppt/io/read_chars.hpp>
#include <fcppt/io/write.hpp>
#include <fcppt/io/write_chars.hpp>
#include <fcppt/math/dim/comparison.hpp>
#include <fcppt/math/dim/input.hpp>
#include <fcppt/math/dim/output.hpp>
#include <fcppt/math/dim/static.hpp>
#include <fcppt/math/vector/comparison.hpp>
#include <fcppt/math/vector/input.hpp>
#include <fcppt/math/vector/output.hpp>
#include <fcppt/math/vector/static.hpp>
#include <fcppt/optional/object.hpp>
#include <bit>
#include <cstring>
#include <istream>
#include <limits>
#include <ostream>
#include <stdexcept>
#include <string>
#include <thread>
#include <typeinfo>
#include <unistd.h>
#include <vector>
#include "core/main.hpp"
#include "seams/codecvt.hpp"
#include "seams/streambuf.hpp"

namespace prop
{
char const *const id = "C15";
}

namespace
{
// names are prefix-free, so a torn name is never another valid name
enum class color
{
  red,
  green,
  blue_ish,
  ultraviolet,
  x,
  fcppt_maximum = x
};
}
namespace fcppt::enum_
{
template <>
struct to_string_impl<color>
{
  static std::string_view get(color const _val)
  {
#define NAME_CASE(val) FCPPT_ENUM_TO_STRING_CASE(color, val)
    switch (_val)
    {
      NAME_CASE(red);
      NAME_CASE(green);
      NAME_CASE(blue_ish);
      NAME_CASE(ultraviolet);
      NAME_CASE(x);
    }
    FCPPT_ASSERT_UNREACHABLE;
#undef NAME_CASE
  }
};
}
namespace
{
template <typename Ch, typename Traits>
std::basic_ostream<Ch, Traits> &operator<<(std::basic_ostream<Ch, Traits> &s, color c)
{
  return fcppt::enum_::output(s, c);
}
template <typename Ch, typename Traits>
std::basic_istream<Ch, Traits> &operator>>(std::basic_istream<Ch, Traits> &s, color &c)
{
  return fcppt::enum_::input(s, c);
}

std::string hex(std::string const &s)
{
  static char const *d = "0123456789abcdef";
  std::string r;
  for (unsigned char c : s)
  {
    r.push_back(d[c >> 4]);
    r.push_back(d[c & 15]);
  }
  return r;
}

// ------------------------------------------------------------------ binary values
struct BinVal
{
  unsigned type; // 0..10
  unsigned char bytes[16]; // object representation (host order)
  std::endian order;
};
constexpr unsigned TYPES = 11;
constexpr std::size_t type_size(unsigned t)
{
  constexpr std::size_t s[TYPES] = {1, 1, 2, 2, 4, 4, 8, 8, 4, 8, sizeof(long double)};
  return s[t % TYPES];
}
// bytes of the object representation that carry the value (x87 long double: 10 of 16; the rest is
// padding whose contents nobody promises)
constexpr std::size_t value_bytes(unsigned t) { return t % TYPES == 10 ? 10 : type_size(t); }
static_assert(sizeof(long double) == 16, "harness assumes the x86-64 long double (80 bits in 16 bytes)");

template <typename T>
void write_as(std::ostream &o, BinVal const &v)
{
  T x;
  std::memcpy(&x, v.bytes, sizeof(T));
  fcppt::io::write(o, x, v.order);
}
void write_val(std::ostream &o, BinVal const &v)
{
  switch (v.type % TYPES)
  {
  case 10: write_as<long double>(o, v); break;
  case 0: write_as<signed char>(o, v); break;
  case 1: write_as<unsigned char>(o, v); break;
  case 2: write_as<short>(o, v); break;
  case 3: write_as<unsigned short>(o, v); break;
  case 4: write_as<int>(o, v); break;
  case 5: write_as<unsigned>(o, v); break;
  case 6: write_as<long long>(o, v); break;
  case 7: write_as<unsigned long>(o, v); break;
  case 8: write_as<float>(o, v); break;
  default: write_as<double>(o, v); break;
  }
}
template <typename T>
bool read_as(std::istream &i, std::endian order, unsigned char *out)
{
  fcppt::optional::object<T> r = fcppt::io::read<T>(i, order);
  if (!r.has_value())
    return false;
  T const x = r.get_unsafe();
  std::memcpy(out, &x, sizeof(T));
  return true;
}
bool read_val(std::istream &i, unsigned type, std::endian order, unsigned char *out)
{
  switch (type % TYPES)
  {
  case 10: return read_as<long double>(i, order, out);
  case 0: return read_as<signed char>(i, order, out);
  case 1: return read_as<unsigned char>(i, order, out);
  case 2: return read_as<short>(i, order, out);
  case 3: return read_as<unsigned short>(i, order, out);
  case 4: return read_as<int>(i, order, out);
  case 5: return read_as<unsigned>(i, order, out);
  case 6: return read_as<long long>(i, order, out);
  case 7: return read_as<unsigned long>(i, order, out);
  case 8: return read_as<float>(i, order, out);
  default: return read_as<double>(i, order, out);
  }
}

BinVal gen_val(sim::Rng &r, unsigned endian_mode)
{
  BinVal v{};
  v.type = static_cast<unsigned>(r.below(TYPES));
  if (v.type == 10)
  {
    // long double: only proper values (arbitrary bit patterns are not valid x87 operands)
    long double x = 0.0L;
    switch (r.below(8))
    {
    case 0: x = 0.0L; break;
    case 1: x = -0.0L; break;
    case 2: x = std::numeric_limits<long double>::max(); break;
    case 3: x = std::numeric_limits<long double>::denorm_min(); break;
    case 4: x = -std::numeric_limits<long double>::infinity(); break;
    case 5: x = 1.0L; break;
    default:
      x = static_cast<long double>(static_cast<long long>(r.next())) / 7.0L;
      for (unsigned k = static_cast<unsigned>(r.below(40)); k != 0; --k)
        x *= r.chance(1, 2) ? 1024.0L : 1.0L / 1024.0L;
      break;
    }
    std::memset(v.bytes, 0, sizeof v.bytes);
    std::memcpy(v.bytes, &x, value_bytes(10));
    unsigned const e = endian_mode % 3 == 2 ? static_cast<unsigned>(r.below(2)) : endian_mode % 3;
    v.order = e == 0 ? std::endian::little : std::endian::big;
    return v;
  }
  std::size_t const n = type_size(v.type);
  std::uint64_t bits = 0;
  switch (r.below(6))
  {
  case 0: bits = 0; break;
  case 1: bits = ~std::uint64_t{0}; break;
  case 2: bits = std::uint64_t{1} << r.below(n * 8); break;
  case 3: bits = (std::uint64_t{1} << r.below(n * 8)) - 1; break;
  case 4: bits = std::uint64_t{1} << (n * 8 - 1); break;
  default: bits = r.next(); break;
  }
  if (v.type >= 8 && r.chance(1, 2))
  {
    // ordinary floating point numbers half of the time
    if (v.type == 8)
    {
      float f = static_cast<float>(static_cast<long>(r.below(2000000)) - 1000000) / 7.0F;
      std::memcpy(&bits, &f, 4);
    }
    else
    {
      double d = static_cast<double>(static_cast<long>(r.below(2000000000)) - 1000000000) / 7.0;
      std::memcpy(&bits, &d, 8);
    }
  }
  std::memcpy(v.bytes, &bits, n); // little endian host: low bytes first
  unsigned const e = endian_mode % 3 == 2 ? static_cast<unsigned>(r.below(2)) : endian_mode % 3;
  v.order = e == 0 ? std::endian::little : std::endian::big;
  return v;
}

struct World
{
  sim::Ctx &ctx;
  explicit World(sim::Ctx &c) : ctx(c) {}

  // configure the reader side from the op
  void reader_cfg(sim::Op const &op, sim::StreamBuf<char> &rb, std::size_t written)
  {
    if (op.has("trunc"))
      rb.visible(op.getu("trunc") % (written + 1));
  }

  // ---- io::write -> io::read
  void op_bin(sim::Op const &op)
  {
    sim::Rng r(op.getu("vs"));
    unsigned const n = static_cast<unsigned>(op.getu("n") % 12);
    std::vector<BinVal> vals;
    for (unsigned k = 0; k < n; ++k)
      vals.push_back(gen_val(r, static_cast<unsigned>(op.getu("e"))));
    // writer
    sim::StreamBuf<char> wb;
    long const accept = op.get("accept", -1);
    if (accept >= 0)
      wb.accept_limit(accept);
    std::ostream os(&wb);
    std::size_t acked = 0;
    std::size_t acked_bytes = 0;
    {
      sim::fault::Sut s;
      for (BinVal const &v : vals)
      {
        write_val(os, v);
        if (!os.good())
          break; // the writer stops at the first failure: this value is not acknowledged
        ++acked;
        acked_bytes += type_size(v.type);
      }
    }
    std::string const file = wb.data();
    if (accept < 0)
      SIM_CHECK(acked == vals.size(), "write-failed-without-fault", "io::write reported failure on a healthy stream");
    else
    {
      if (wb.write_refused())
        ctx.probe("torn_write");
      SIM_CHECK(file.size() <= static_cast<std::size_t>(accept), "wrote-more-than-accepted", "bin");
    }
    // the byte layout on the simulated disk: most significant byte first for big endian
    {
      std::size_t off = 0;
      for (std::size_t k = 0; k < acked; ++k)
      {
        std::size_t const sz = type_size(vals[k].type);
        std::size_t const vb = value_bytes(vals[k].type);
        std::string want(reinterpret_cast<char const *>(vals[k].bytes), vb); // host = little endian
        static_assert(std::endian::native == std::endian::little, "harness assumes a little endian host");
        if (vals[k].order == std::endian::big)
          std::reverse(want.begin(), want.end());
        // (padding bytes of long double precede the value in big endian and follow it in little)
        std::size_t const voff = vals[k].order == std::endian::big ? off + (sz - vb) : off;
        // (whether the padding precedes or follows the value's bytes is not stated: both accepted)
        SIM_CHECK(file.compare(voff, vb, want) == 0 || file.compare(off, vb, want) == 0, "byte-layout",
                  "value " + std::to_string(k) + " (type " + std::to_string(vals[k].type) + ", " + (vals[k].order == std::endian::big ? "big" : "little") + " endian) is on disk as " + hex(file.substr(voff, vb)) + ", expected " + hex(want));
        off += sz;
      }
      SIM_CHECK(acked_bytes <= file.size(), "acknowledged-but-not-on-disk", "bin");
    }
    // reader: independently configured
    sim::StreamBuf<char> rb(file, op.getu("rchunk") % 9);
    reader_cfg(op, rb, file.size());
    std::size_t const visible = op.has("trunc") ? op.getu("trunc") % (file.size() + 1) : file.size();
    if (visible < file.size())
      ctx.probe("truncated_file");
    std::istream is(&rb);
    std::size_t off = 0;
    bool failed_once = false;
    unsigned good_reads = 0;
    for (std::size_t k = 0; k < vals.size(); ++k)
    {
      unsigned char out[16] = {};
      bool ok = false;
      {
        sim::fault::Sut s;
        ok = read_val(is, vals[k].type, vals[k].order, out);
      }
      std::size_t const sz = type_size(vals[k].type);
      bool const whole = off + sz <= visible && k < acked + 1 && off + sz <= file.size();
      if (ok)
      {
        SIM_CHECK(!failed_once, "read-after-failure", "value " + std::to_string(k) + " was read although an earlier read had failed (shifted bytes)");
        SIM_CHECK(!rb.threw(), "value-after-read-error", "io::read returned a value although the stream failed");
        SIM_CHECK(whole, "torn-value-accepted", "value " + std::to_string(k) + " lies only partly in the file (" + std::to_string(visible) + " bytes visible, value at " + std::to_string(off) + "+" + std::to_string(sz) + ") but io::read returned a value");
        SIM_CHECK(std::memcmp(out, vals[k].bytes, value_bytes(vals[k].type)) == 0, "roundtrip", "value " + std::to_string(k) + " type " + std::to_string(vals[k].type) + " read back differently");
        ++good_reads;
      }
      else
      {
        SIM_CHECK(!whole || rb.threw(), "spurious-read-failure", "value " + std::to_string(k) + " lies wholly in the file and nothing failed, but io::read returned nothing");
        if (!whole && !rb.threw() && off < visible)
          ctx.probe("torn_value_rejected");
        failed_once = true;
      }
      off += sz;
    }
    if (rb.threw())
      ctx.probe("read_error");
    ctx.ev("bin n=" + std::to_string(n) + " acked=" + std::to_string(acked) + " read=" + std::to_string(good_reads));
  }

  // ---- write_chars -> read_chars
  void op_chars(sim::Op const &op)
  {
    sim::Rng r(op.getu("vs"));
    std::size_t const len = op.getu("n") % 40;
    std::string data;
    for (std::size_t k = 0; k < len; ++k)
      data.push_back(static_cast<char>(r.below(256)));
    sim::StreamBuf<char> wb;
    long const accept = op.get("accept", -1);
    if (accept >= 0)
      wb.accept_limit(accept);
    std::ostream os(&wb);
    if (op.get("prefail") != 0)
    {
      // an earlier (formatted) output on this stream has failed: nothing more may be acknowledged
      os.setstate(std::ios_base::failbit);
      ctx.probe("write_to_failed_stream");
    }
    bool acked = false;
    {
      sim::fault::Sut s;
      acked = fcppt::io::write_chars(os, data.data(), data.size());
    }
    std::string const file = wb.data();
    bool const complete = file == data;
    SIM_CHECK(!acked || complete, "unacknowledged-write-reported-good", "write_chars returned true but only " + std::to_string(file.size()) + " of " + std::to_string(data.size()) + " bytes are on disk");
    if (accept < 0 && op.get("prefail") == 0)
      SIM_CHECK(acked, "write-failed-without-fault", "write_chars");
    if (!complete)
      ctx.probe("torn_write");
    sim::StreamBuf<char> rb(file, op.getu("rchunk") % 9);
    reader_cfg(op, rb, file.size());
    std::size_t const visible = op.has("trunc") ? op.getu("trunc") % (file.size() + 1) : file.size();
    std::istream is(&rb);
    std::size_t const want = op.has("ask") ? op.getu("ask") % 48 : data.size();
    fcppt::io::optional_buffer res;
    {
      sim::fault::Sut s;
      res = fcppt::io::read_chars(is, want);
    }
    if (res.has_value())
    {
      std::string const got(res.get_unsafe().begin(), res.get_unsafe().end());
      SIM_CHECK(!rb.threw(), "value-after-read-error", "read_chars");
      SIM_CHECK(want <= visible, "torn-value-accepted", "read_chars returned " + std::to_string(got.size()) + " bytes although only " + std::to_string(visible) + " exist and " + std::to_string(want) + " were asked for");
      SIM_CHECK(got == file.substr(0, want), "roundtrip", "read_chars returned different bytes");
    }
    else
      SIM_CHECK(want > visible || rb.threw(), "spurious-read-failure", "read_chars");
    ctx.ev("chars len=" + std::to_string(len) + " acked=" + std::to_string(acked) + " read=" + std::to_string(res.has_value()));
  }

  // ---- text formats over char / wchar_t streams
  template <typename Ch>
  void text_impl(sim::Op const &op)
  {
    using string = std::basic_string<Ch>;
    using vec3 = fcppt::math::vector::static_<int, 3>;
    using dim2 = fcppt::math::dim::static_<long, 2>;
    using vec4 = fcppt::math::vector::static_<short, 4>;
    sim::Rng r(op.getu("vs"));
    unsigned const n = static_cast<unsigned>(op.getu("n") % 8);
    struct Item
    {
      unsigned kind;
      vec3 v;
      dim2 d;
      color c;
      vec4 w;
    };
    std::vector<Item> items;
    auto num = [&]() -> long {
      switch (r.below(5))
      {
      case 0: return 0;
      case 1: return std::numeric_limits<int>::max();
      case 2: return std::numeric_limits<int>::min();
      case 3: return static_cast<long>(r.below(2001)) - 1000;
      default: return static_cast<long>(static_cast<int>(r.next()));
      }
    };
    for (unsigned k = 0; k < n; ++k)
    {
      auto sh = [&]() -> short { return static_cast<short>(r.below(5) == 0 ? (r.below(2) == 0 ? 32767 : -32768) : static_cast<long>(r.below(2001)) - 1000); };
      items.push_back(Item{static_cast<unsigned>(r.below(4)), vec3(static_cast<int>(num()), static_cast<int>(num()), static_cast<int>(num())), dim2(num(), num()), static_cast<color>(r.below(5)), vec4(sh(), sh(), sh(), sh())});
    }
    sim::StreamBuf<Ch> wb;
    long const accept = op.get("accept", -1);
    if (accept >= 0)
      wb.accept_limit(accept);
    static std::locale const plain_locale("C.utf8");
    std::basic_ostream<Ch> os(&wb);
    os.imbue(plain_locale);
    std::size_t acked = 0;
    std::vector<std::size_t> ends; // offset after the text of each completely written value
    // `alloc:k`: the k-th allocation the library makes while it writes throws; a value whose
    // output operator was hit either makes the stream fail / throws, or is on disk completely
    bool const alloc_faults = op.gets("fault").compare(0, 6, "alloc:") == 0;
    struct AllocScope
    {
      bool on;
      explicit AllocScope(bool o) : on(o)
      {
        if (on)
          sim::fault::st().alloc_off = false;
      }
      ~AllocScope()
      {
        if (on)
          sim::fault::st().alloc_off = true;
      }
    };
    try
    {
      AllocScope const alloc_scope(alloc_faults);
      sim::fault::Sut s;
      for (Item const &it : items)
      {
        if (it.kind == 0)
          os << it.v;
        else if (it.kind == 1)
          os << it.d;
        else if (it.kind == 3)
          os << it.w;
        else
          os << it.c;
        if (!os.good())
          break;
        // the value's text is completely on disk (the separator may still be refused)
        {
          sim::fault::Harness h; // the harness's own bookkeeping is not a fault site
          ends.push_back(wb.data().size());
        }
        os << Ch(' ');
        if (!os.good())
          break;
        ++acked;
      }
    }
    catch (std::bad_alloc const &)
    {
      SIM_CHECK(sim::fault::fired(sim::fault::alloc), "undocumented-exception", "bad_alloc from an output operator without an injected failure");
      ctx.probe("text_output_reported_bad_alloc");
    }
    string const file = wb.data();
    if (accept < 0 && !sim::fault::fired(sim::fault::alloc))
      SIM_CHECK(acked == items.size(), "write-failed-without-fault", "text");
    if (wb.write_refused())
      ctx.probe("torn_write");
    sim::StreamBuf<Ch> rb(file, op.getu("rchunk") % 9);
    std::size_t const visible = op.has("trunc") ? op.getu("trunc") % (file.size() + 1) : file.size();
    if (op.has("trunc"))
      rb.visible(visible);
    std::basic_istream<Ch> is(&rb);
    is.imbue(plain_locale);
    bool failed_once = false;
    unsigned good = 0;
    for (std::size_t k = 0; k < items.size(); ++k)
    {
      Item got{items[k].kind, vec3(0, 0, 0), dim2(0, 0), color::x, vec4(0, 0, 0, 0)};
      bool ok = false;
      {
        sim::fault::Sut s;
        if (items[k].kind == 0)
          is >> got.v;
        else if (items[k].kind == 1)
          is >> got.d;
        else if (items[k].kind == 3)
          is >> got.w;
        else
          is >> got.c;
        ok = !is.fail();
      }
      // the value text (without the separator) must lie wholly in the visible file
      bool const acked_item = k < ends.size();
      std::size_t const value_end = acked_item ? ends[k] : 0;
      // enums are delimited by the following separator or the end of file; vectors by ')'
      bool const whole = acked_item && value_end <= visible;
      if (ok)
      {
        SIM_CHECK(!failed_once, "read-after-failure", "text item " + std::to_string(k) + " read after an earlier failure");
        SIM_CHECK(!rb.threw(), "value-after-read-error", "text");
        SIM_CHECK(whole, "torn-value-accepted", "text item " + std::to_string(k) + " (kind " + std::to_string(items[k].kind) + ") is torn at byte " + std::to_string(visible) + " but was read as a value");
        bool const same = items[k].kind == 0 ? got.v == items[k].v : items[k].kind == 1 ? got.d == items[k].d : items[k].kind == 3 ? got.w == items[k].w : got.c == items[k].c;
        SIM_CHECK(same, "roundtrip", "text item " + std::to_string(k) + " kind " + std::to_string(items[k].kind) + " read back differently");
        ++good;
      }
      else
      {
        SIM_CHECK(!whole || rb.threw(), "spurious-read-failure", "text item " + std::to_string(k) + " kind " + std::to_string(items[k].kind) + " lies wholly in the file and nothing failed");
        if (acked_item && !whole && !rb.threw())
          ctx.probe("torn_value_rejected");
        failed_once = true;
      }
    }
    ctx.ev(std::string("text<") + (sizeof(Ch) == 1 ? "char" : "wchar_t") + "> n=" + std::to_string(n) + " acked=" + std::to_string(acked) + " read=" + std::to_string(good));
  }

  // ---- widen / narrow through the simulated facet
  void op_cvt(sim::Op const &op)
  {
    sim::Rng r(op.getu("vs"));
    // up to 40 characters as the property's quantifier says, and now and then far beyond (an
    // implementation that converts in fixed-size pieces has boundaries only long strings reach)
    std::size_t const len = op.getu("n") % 2049;
    if (len > 40)
      ctx.probe("cvt_long_string");
    std::wstring w;
    for (std::size_t k = 0; k < len; ++k)
    {
      unsigned long c = 0;
      switch (r.below(5))
      {
      case 0: c = r.chance(1, 12) ? 0 : 1 + r.below(0x7F); break; // now and then U+0000: a valid character too
      case 1: c = 0x80 + r.below(0x780); break;
      case 2: c = 0x800 + r.below(0xF800); break;
      case 3: c = 0x10000 + r.below(0x100000); break;
      default:
      {
        static unsigned long const edge[] = {0x7F, 0x80, 0x7FF, 0x800, 0xFFFF, 0x10000, 0x10FFFF, 0xD7FF, 0xE000, 0x20AC};
        c = edge[r.below(10)];
        break;
      }
      }
      if (c >= 0xD800 && c <= 0xDFFF)
        c = 0x20AC;
      w.push_back(static_cast<wchar_t>(c));
    }
    std::string const utf8 = sim::utf8_encode(w);
    // real=1: the plain C.utf8 locale without the simulated facet in between
    static std::locale const real_locale("C.utf8");
    std::locale const &loc = op.get("real") != 0 ? real_locale : sim::sim_locale();
    if (op.get("real") != 0)
      ctx.probe("cvt_through_real_facet_only");
    long const window = op.get("window", 0);
    long const ferr = op.get("ferr", -1);
    // narrow
    sim::codecvt_ctl().reset();
    sim::codecvt_ctl().window = window;
    sim::codecvt_ctl().error_at = ferr;
    sim::codecvt_ctl().stall_at = op.get("stall", -1);
    fcppt::optional_std_string narrow;
    {
      sim::fault::Sut s;
      narrow = fcppt::narrow_locale(w, loc);
    }
    bool const nerr = sim::codecvt_ctl().error_fired;
    long const npart = sim::codecvt_ctl().partials;
    if (npart != 0)
      ctx.probe("narrow_partial_iterations", static_cast<std::uint64_t>(npart));
    if (sim::codecvt_ctl().zero_progress_partial)
      ctx.probe("narrow_zero_progress_partial");
    if (utf8.size() > w.size())
      ctx.probe("encoded_longer_than_initial_buffer");
    long const stall_cfg = op.get("stall", -1);
    bool const will_stall = stall_cfg >= 0 && static_cast<std::size_t>(stall_cfg) < w.size();
    if (will_stall || sim::codecvt_ctl().stalled)
    {
      // the facet said "partial, no progress, however much room": the rest cannot be converted
      SIM_CHECK(!narrow.has_value(), "silent-truncation", "narrow returned " + std::to_string(narrow.has_value() ? narrow.get_unsafe().size() : 0) + " of " + std::to_string(utf8.size()) + " bytes as success although the facet could not convert the rest");
      ctx.probe("narrow_facet_stall");
    }
    else if (nerr)
    {
      SIM_CHECK(!narrow.has_value(), "facet-error-ignored", "narrow returned '" + hex(narrow.has_value() ? narrow.get_unsafe() : "") + "' although the facet reported an error");
      ctx.probe("narrow_facet_error");
    }
    else if (narrow.has_value())
    {
      std::string const &got = narrow.get_unsafe();
      if (got != utf8)
      {
        bool const prefix = got.size() < utf8.size() && utf8.compare(0, got.size(), got) == 0;
        sim::violate(prefix ? "silent-truncation" : "roundtrip", "narrow of " + std::to_string(w.size()) + " characters returned " + std::to_string(got.size()) + " bytes (" + hex(got) + "), the complete UTF-8 encoding has " + std::to_string(utf8.size()) + " bytes (" + hex(utf8) + ")");
      }
    }
    else if (window > 0)
      // a facet that answers `partial` although plenty of room is left is legal but unlike any real
      // facet; an implementation may give up on it (only a returned value is judged)
      ctx.probe("narrow_gave_up_on_windowed_facet");
    else
      sim::violate("spurious-conversion-failure", "narrow of a valid string failed (" + hex(utf8) + ")");
    // widen (optionally of a torn encoding)
    std::string input = utf8;
    bool torn = false;
    if (op.has("tear") && !utf8.empty())
    {
      std::size_t const cut = op.getu("tear") % (utf8.size() + 1);
      input = utf8.substr(0, cut);
      // torn inside a multi-byte sequence?
      torn = cut < utf8.size() && (static_cast<unsigned char>(utf8[cut]) & 0xC0) == 0x80;
    }
    std::wstring expect_w;
    {
      // the characters wholly contained in input
      std::size_t bytes = 0;
      for (wchar_t c : w)
      {
        std::size_t const l = sim::utf8_encode(std::wstring(1, c)).size();
        if (bytes + l > input.size())
          break;
        bytes += l;
        expect_w.push_back(c);
      }
    }
    sim::codecvt_ctl().reset();
    sim::codecvt_ctl().window = window;
    sim::codecvt_ctl().error_at = op.has("ferr2") ? op.get("ferr2") : -1;
    std::wstring wide;
    bool threw = false;
    try
    {
      sim::fault::Sut s;
      wide = fcppt::widen_locale(input, loc);
    }
    catch (std::runtime_error const &)
    {
      threw = true;
    }
    bool const werr = sim::codecvt_ctl().error_fired;
    if (sim::codecvt_ctl().partials != 0)
      ctx.probe("widen_partial_iterations", static_cast<std::uint64_t>(sim::codecvt_ctl().partials));
    if (werr)
    {
      SIM_CHECK(threw, "facet-error-ignored", "widen returned a string although the facet reported an error");
      ctx.probe("widen_facet_error");
    }
    else if (torn)
    {
      // an encoding torn inside a character is not a string of valid characters: the conversion
      // may report failure or convert all whole characters (the real C.utf8 facet reports `ok` and
      // keeps the incomplete tail in its state) - but it must not lose a whole character
      SIM_CHECK(threw || wide == expect_w, "silent-truncation", "widen of an encoding torn inside its last character returned " + std::to_string(wide.size()) + " characters; " + std::to_string(expect_w.size()) + " whole characters precede the tear");
      ctx.probe(threw ? "widen_torn_input_failed" : "widen_torn_input_whole_prefix");
    }
    else
    {
      if (threw && window > 0)
        ctx.probe("widen_gave_up_on_windowed_facet");
      else
        SIM_CHECK(!threw, "spurious-conversion-failure", "widen of a valid string failed");
      if (!threw && wide != expect_w)
      {
        bool const prefix = wide.size() < expect_w.size() && expect_w.compare(0, wide.size(), wide) == 0;
        sim::violate(prefix ? "silent-truncation" : "roundtrip", "widen returned " + std::to_string(wide.size()) + " characters, expected " + std::to_string(expect_w.size()));
      }
    }
    if (op.get("real") != 0 && !op.has("tear"))
    {
      // the entry points that take the locale from the environment (string_conv_locale() is
      // std::locale(""); the harness runs with LC_ALL=C.UTF-8, see warmup)
      fcppt::optional_std_string n2;
      fcppt::optional_string n3;
      std::wstring w2, w3;
      bool threw2 = false;
      try
      {
        sim::fault::Sut s;
        n2 = fcppt::narrow(w);
        n3 = fcppt::from_std_wstring(w);
        w2 = fcppt::widen(utf8);
        w3 = fcppt::to_std_wstring(fcppt::string(utf8));
      }
      catch (std::runtime_error const &)
      {
        threw2 = true;
      }
      SIM_CHECK(!threw2, "spurious-conversion-failure", "widen / to_std_wstring of a valid string failed in the environment's UTF-8 locale (" + hex(utf8) + ")");
      SIM_CHECK(n2.has_value() && n3.has_value(), "spurious-conversion-failure", "narrow / from_std_wstring of a valid string failed in the environment's UTF-8 locale (" + hex(utf8) + ")");
      auto const judge = [&](std::string const &got, char const *what) {
        if (got != utf8)
          sim::violate(got.size() < utf8.size() && utf8.compare(0, got.size(), got) == 0 ? "silent-truncation" : "roundtrip", std::string(what) + " returned " + hex(got) + ", the UTF-8 encoding is " + hex(utf8));
      };
      judge(n2.get_unsafe(), "narrow");
      judge(n3.get_unsafe(), "from_std_wstring");
      SIM_CHECK(w2 == w && w3 == w, w2.size() < w.size() || w3.size() < w.size() ? "silent-truncation" : "roundtrip", "widen / to_std_wstring returned " + std::to_string(w2.size()) + " / " + std::to_string(w3.size()) + " characters, expected " + std::to_string(w.size()));
      ctx.probe("cvt_through_environment_locale");
    }
    sim::codecvt_ctl().reset();
    ctx.ev("cvt len=" + std::to_string(len) + " bytes=" + std::to_string(utf8.size()) + " window=" + std::to_string(window) + (nerr ? " nerr" : "") + (torn ? " torn" : "") + (threw ? " wthrew" : ""));
  }

  // ---- enum input must reject everything that is not exactly a name (never another enumerator)
  template <typename Ch>
  void badname_impl(sim::Op const &op)
  {
    using string = std::basic_string<Ch>;
    sim::Rng r(op.getu("vs"));
    color const c = static_cast<color>(r.below(5));
    std::string const name{fcppt::enum_::to_string(c)};
    unsigned variant = static_cast<unsigned>(op.getu("v") % 5);
    if (variant == 3 && sizeof(Ch) == 1)
      variant = 1;
    string text;
    bool valid = false;
    switch (variant)
    {
    case 0: // control: the name itself
      text.assign(name.begin(), name.end());
      valid = true;
      break;
    case 1: // a strict, non-empty prefix (names are prefix-free), or one character for 1-letter names
      text.assign(name.begin(), name.begin() + static_cast<std::ptrdiff_t>(name.size() > 1 ? 1 + r.below(name.size() - 1) : 1));
      if (text.size() == name.size())
        text.push_back(Ch('q'));
      break;
    case 2: // the name followed by garbage without a separator
      text.assign(name.begin(), name.end());
      text.push_back(Ch('q'));
      break;
    case 3: // wide only: characters whose LOW byte spells the name (U+01xx ...)
      for (char ch : name)
        text.push_back(static_cast<Ch>(static_cast<unsigned char>(ch) + 0x100U * (1U + static_cast<unsigned>(r.below(3)))));
      break;
    default: // one letter changed
      text.assign(name.begin(), name.end());
      text[r.below(text.size())] = Ch('Q');
      break;
    }
    text.push_back(Ch(' '));
    sim::StreamBuf<Ch> rb(text, op.getu("rchunk") % 9);
    static std::locale const plain_locale("C.utf8");
    std::basic_istream<Ch> is(&rb);
    is.imbue(plain_locale);
    color got = c == color::x ? color::red : color::x; // something else than c
    color const before = got;
    {
      sim::fault::Sut s;
      is >> got;
    }
    if (rb.threw())
      SIM_CHECK(is.fail(), "value-after-read-error", "enum input produced a value although the stream failed");
    else if (valid)
      SIM_CHECK(!is.fail() && got == c, "roundtrip", "enum name '" + name + "' was not read back");
    else if (variant == 1 || variant == 2)
      // a prefix of the name, or the name followed by more characters: an input operator may
      // accept these as the enumerator (prefix matching, leaving the rest in the stream); what it
      // must not do is produce ANOTHER enumerator
      SIM_CHECK(is.fail() || got == c, "malformed-name-accepted", "enum input read variant " + std::to_string(variant) + " of '" + name + "' as a different enumerator " + std::to_string(static_cast<int>(got)));
    else
    {
      SIM_CHECK(is.fail(), "malformed-name-accepted", "enum input accepted a text that is not a name (variant " + std::to_string(variant) + " of '" + name + "') and produced enumerator " + std::to_string(static_cast<int>(got)));
      (void)before;
    }
    ctx.ev(std::string("badname<") + (sizeof(Ch) == 1 ? "char" : "wchar_t") + "> v=" + std::to_string(variant) + (is.fail() ? " rejected" : " accepted"));
  }

  // ---- io::narrow_string_locale: the string of ctype::narrow(c, 0) iff none of them is 0
  void op_ionarrow(sim::Op const &op)
  {
    sim::Rng r(op.getu("vs"));
    std::size_t const len = op.getu("n") % 12;
    std::wstring w;
    for (std::size_t k = 0; k < len; ++k)
    {
      unsigned long c = 0;
      switch (r.below(8))
      {
      case 0: c = 0x80 + r.below(0x80); break;               // Latin-1 range
      case 1: c = 0x100 * (1 + r.below(0x40)) + 0x20 + r.below(0x5F); break; // low byte is printable ASCII
      case 2: c = 0x4E00 + r.below(0x100); break;
      default: c = 0x20 + r.below(0x5F); break;              // ASCII
      }
      w.push_back(static_cast<wchar_t>(c));
    }
    static std::locale const real_locale("C.utf8");
    std::locale const &loc = op.get("classic") != 0 ? std::locale::classic() : real_locale;
    auto const &ct = std::use_facet<std::ctype<wchar_t>>(loc);
    std::string expect;
    bool representable = true;
    for (wchar_t c : w)
    {
      char const d = ct.narrow(c, '\0');
      if (d == '\0')
        representable = false;
      expect.push_back(d);
    }
    fcppt::optional::object<std::string> res;
    {
      sim::fault::Sut s;
      res = fcppt::io::narrow_string_locale(std::wstring_view{w}, loc);
    }
    bool const lossless_utf8 = op.get("classic") == 0 && res.has_value() && res.get_unsafe() == sim::utf8_encode(w);
    if (lossless_utf8)
      ctx.probe("ionarrow_complete_utf8");
    else if (representable)
      SIM_CHECK(res.has_value() && res.get_unsafe() == expect, "roundtrip", "narrow_string of a representable string");
    else
    {
      SIM_CHECK(!res.has_value(), "silent-truncation", "io::narrow_string_locale returned '" + (res.has_value() ? res.get_unsafe() : std::string()) + "' for a string with a character that has no narrow representation");
      ctx.probe("ionarrow_unrepresentable");
    }
    ctx.ev("ionarrow len=" + std::to_string(len) + (res.has_value() ? " value" : " nothing"));
  }

  // ---- riders without a seam of their own (only in fault-free runs)
  void op_pure(sim::Op const &op)
  {
    sim::Rng r(op.getu("vs"));
    for (unsigned k = 0; k < 8; ++k)
    {
      BinVal const v = gen_val(r, 0);
      std::uint64_t bits = 0;
      std::memcpy(&bits, v.bytes, std::min<std::size_t>(sizeof bits, type_size(v.type)));
      sim::fault::Sut s;
      switch (type_size(v.type))
      {
      case 1: SIM_CHECK(fcppt::endianness::swap(fcppt::endianness::swap(static_cast<std::uint8_t>(bits))) == static_cast<std::uint8_t>(bits), "swap-twice", "u8"); break;
      case 2: SIM_CHECK(fcppt::endianness::swap(fcppt::endianness::swap(static_cast<std::uint16_t>(bits))) == static_cast<std::uint16_t>(bits), "swap-twice", "u16"); break;
      case 4: SIM_CHECK(fcppt::endianness::swap(fcppt::endianness::swap(static_cast<std::uint32_t>(bits))) == static_cast<std::uint32_t>(bits), "swap-twice", "u32"); break;
      default: SIM_CHECK(fcppt::endianness::swap(fcppt::endianness::swap(bits)) == bits, "swap-twice", "u64"); break;
      }
      // and once is the byte reversal (for every width; io no longer goes through swap)
      if (type_size(v.type) == 2)
        SIM_CHECK(fcppt::endianness::swap(static_cast<std::uint16_t>(bits)) == __builtin_bswap16(static_cast<std::uint16_t>(bits)), "swap-value", "u16");
      if (type_size(v.type) == 4)
        SIM_CHECK(fcppt::endianness::swap(static_cast<std::uint32_t>(bits)) == __builtin_bswap32(static_cast<std::uint32_t>(bits)), "swap-value", "u32");
      if (type_size(v.type) == 8)
      {
        SIM_CHECK(fcppt::endianness::swap(bits) == __builtin_bswap64(bits), "swap-value", "u64");
        SIM_CHECK(fcppt::endianness::swap(static_cast<std::int64_t>(bits)) == static_cast<std::int64_t>(__builtin_bswap64(bits)), "swap-value", "i64");
      }
      // endianness::convert: identity for the native format, the reversal for the other one
      SIM_CHECK(fcppt::endianness::convert(static_cast<std::uint32_t>(bits), std::endian::native) == static_cast<std::uint32_t>(bits), "convert-value", "native");
      SIM_CHECK(fcppt::endianness::convert(static_cast<std::uint32_t>(bits), std::endian::native == std::endian::little ? std::endian::big : std::endian::little) == __builtin_bswap32(static_cast<std::uint32_t>(bits)), "convert-value", "non-native");
    }
    // the text round trips run with allocation failures enabled (`alloc:k`: the k-th allocation of
    // this operation throws): a conversion hit by one reports it (bad_alloc, or nothing from
    // extract) or returns the complete text - and the conversions after it are not affected
    // Half of the time the whole section runs on a thread of its own (the harness waits for it):
    // whatever an implementation keeps per thread between calls starts from scratch there, so its
    // growth paths are taken in every such run and not only in the first ones of a process.
    auto const section = [&] {
    struct AllocOn
    {
      AllocOn() { sim::fault::st().alloc_off = false; }
      ~AllocOn() { sim::fault::st().alloc_off = true; }
    } alloc_on;
    for (unsigned k = 0; k < 4; ++k)
    {
      long long const x = static_cast<long long>(r.next());
      int const y = static_cast<int>(r.next());
      std::string const want_x = std::to_string(x);
      std::string const want_y = std::to_string(y);
      // a text longer than any converted before in this process now and then (an implementation
      // that keeps a stream between calls grows its buffer exactly then)
      bool const fired_at_start = sim::fault::fired(sim::fault::alloc);
      auto const reported_otherwise = [&](bool fired_earlier, std::exception const &e) {
        if (sim::fault::fired(sim::fault::alloc) && !fired_earlier)
          ctx.probe("text_conversion_reported_another_exception");
        else
          sim::violate("string-roundtrip", std::string("a text conversion that no fault was injected into threw ") + typeid(e).name() + " (" + e.what() + ")" + (fired_earlier ? " - an EARLIER conversion of this history was hit by an allocation failure" : ""));
      };
      try
      {
        std::string const big(static_cast<std::size_t>(r.below(12) == 0 ? r.below(600) : r.below(40)), 'x');
        std::string got_big;
        {
          sim::fault::Sut s;
          got_big = fcppt::output_to_std_string(big);
        }
        SIM_CHECK(got_big == big, got_big.size() < big.size() ? "silent-truncation" : "string-roundtrip", "output_to_std_string of a string of " + std::to_string(big.size()) + " characters returned " + std::to_string(got_big.size()));
      }
      catch (std::bad_alloc const &)
      {
        SIM_CHECK(sim::fault::fired(sim::fault::alloc), "undocumented-exception", "bad_alloc without an injected failure");
        ctx.probe("text_conversion_reported_bad_alloc");
      }
      catch (std::exception const &e)
      {
        // any exception is a report of the failure - if a failure was injected into THIS conversion
        reported_otherwise(fired_at_start, e);
      }
      bool const fired_before = sim::fault::fired(sim::fault::alloc);
      try
      {
        std::string sx;
        std::wstring sy;
        {
          sim::fault::Sut s;
          sx = fcppt::output_to_std_string(x);
          sy = fcppt::output_to_std_wstring(y);
        }
        SIM_CHECK(sx == want_x, sx.size() < want_x.size() && want_x.compare(0, sx.size(), sx) == 0 ? "silent-truncation" : "string-roundtrip", "output_to_std_string(" + want_x + ") returned '" + sx + "'" + (sim::fault::fired(sim::fault::alloc) ? " (an allocation failure was injected and not reported)" : ""));
        SIM_CHECK(sy == std::wstring(want_y.begin(), want_y.end()), sy.size() < want_y.size() ? "silent-truncation" : "string-roundtrip", "output_to_std_wstring(" + want_y + ") returned " + std::to_string(sy.size()) + " characters" + (sim::fault::fired(sim::fault::alloc) ? " (an allocation failure was injected and not reported)" : ""));
        bool const clean = fired_before || !sim::fault::fired(sim::fault::alloc);
        fcppt::optional::object<long long> a;
        fcppt::optional::object<int> b;
        {
          sim::fault::Sut s;
          a = fcppt::extract_from_string<long long>(sx);
          b = fcppt::extract_from_string<int>(sy);
        }
        bool const clean_after = fired_before || !sim::fault::fired(sim::fault::alloc);
        // a value, if any, is the right one; without a fault there must be a value
        SIM_CHECK(!a.has_value() || a.get_unsafe() == x, "string-roundtrip", "long long " + want_x);
        SIM_CHECK(!b.has_value() || b.get_unsafe() == y, "string-roundtrip", "int via wstring " + want_y);
        if (clean && clean_after)
          SIM_CHECK(a.has_value() && b.has_value(), "string-roundtrip", "extract_from_string failed on '" + want_x + "' / '" + want_y + "' without any injected fault" + (fired_before ? " (an EARLIER conversion of this history was hit by an allocation failure)" : ""));
      }
      catch (std::bad_alloc const &)
      {
        SIM_CHECK(sim::fault::fired(sim::fault::alloc), "undocumented-exception", "bad_alloc without an injected failure");
        ctx.probe("text_conversion_reported_bad_alloc");
      }
      catch (std::exception const &e)
      {
        reported_otherwise(fired_before, e);
      }
      // the same for a composite value: a vector's text through output_to_std_(w)string
      {
        using vec3l = fcppt::math::vector::static_<long long, 3>;
        long long const a = static_cast<long long>(r.next()), b = static_cast<long long>(r.next()), c3 = static_cast<long long>(r.below(100000));
        std::string const want_v = "(" + std::to_string(a) + "," + std::to_string(b) + "," + std::to_string(c3) + ")";
        bool const fired_before_vector = sim::fault::fired(sim::fault::alloc);
        try
        {
          std::string sv;
          std::wstring wv;
          {
            sim::fault::Sut s;
            sv = fcppt::output_to_std_string(vec3l(a, b, c3));
            wv = fcppt::output_to_std_wstring(vec3l(a, b, c3));
          }
          SIM_CHECK(sv == want_v, sv.size() < want_v.size() && want_v.compare(0, sv.size(), sv) == 0 ? "silent-truncation" : "string-roundtrip", "output_to_std_string of the vector " + want_v + " returned '" + sv + "'" + (sim::fault::fired(sim::fault::alloc) ? " (an allocation failure was injected and not reported)" : ""));
          SIM_CHECK(wv == std::wstring(want_v.begin(), want_v.end()), wv.size() < want_v.size() ? "silent-truncation" : "string-roundtrip", "output_to_std_wstring of the vector " + want_v + " returned " + std::to_string(wv.size()) + " characters" + (sim::fault::fired(sim::fault::alloc) ? " (an allocation failure was injected and not reported)" : ""));
        }
        catch (std::bad_alloc const &)
        {
          SIM_CHECK(sim::fault::fired(sim::fault::alloc), "undocumented-exception", "bad_alloc without an injected failure");
          ctx.probe("text_conversion_reported_bad_alloc");
        }
        catch (std::exception const &e)
        {
          reported_otherwise(fired_before_vector, e);
        }
      }
      sim::fault::Sut s;
      color const c = static_cast<color>(r.below(5));
      auto e = fcppt::enum_::from_string<color>(std::string{fcppt::enum_::to_string(c)});
      SIM_CHECK(e.has_value() && e.get_unsafe() == c, "enum-roundtrip", "to_string/from_string");
    }
    };
    if (op.get("th") != 0)
    {
      std::exception_ptr error;
      bool const in_sut = sim::fault::st().in_sut;
      std::thread worker([&] {
        try
        {
          section();
        }
        catch (...)
        {
          error = std::current_exception();
        }
      });
      worker.join();
      sim::fault::st().in_sut = in_sut;
      sim::fault::st().alloc_off = true;
      ctx.probe("text_conversions_on_a_fresh_thread");
      if (error)
        std::rethrow_exception(error);
    }
    else
      section();
    ctx.ev("pure");
  }

  void run(sim::Plan const &plan)
  {
    sim::fault::st().alloc_off = true; // allocation failures only where a scenario turns them on
    unsigned effective = 0;
    for (sim::Op const &op : plan.ops)
    {
      sim::fault::begin_op(op);
      if (ctx.trace)
        std::printf("op %s\n", op.str().c_str());
      if (op.name == "bin")
        op_bin(op);
      else if (op.name == "chars")
        op_chars(op);
      else if (op.name == "text")
      {
        if (op.getu("w") % 2 == 0)
          text_impl<char>(op);
        else
          text_impl<wchar_t>(op);
      }
      else if (op.name == "cvt")
        op_cvt(op);
      else if (op.name == "badname")
      {
        if (op.getu("w") % 2 == 0)
          badname_impl<char>(op);
        else
          badname_impl<wchar_t>(op);
      }
      else if (op.name == "ionarrow")
        op_ionarrow(op);
      else if (op.name == "pure")
        op_pure(op);
      else
        sim::violate("harness", "unknown op " + op.name);
      ++effective;
      ctx.end_op();
    }
    ctx.nontrivial = effective >= 1;
  }
};
}

namespace prop
{
void execute(sim::Plan const &p, sim::Ctx &ctx);
void warmup()
{
  // fcppt::narrow / widen / from_std_wstring / to_std_wstring take std::locale(""): the property
  // speaks of a UTF-8 locale, so that is what the environment names while the harness runs
  ::setenv("LC_ALL", "C.UTF-8", 1);
  (void)sim::sim_locale();
  // one fault-free pass over every kind of scenario: whatever the standard library initialises
  // lazily (numeric formatting caches of the locales, facet tables) exists before the first run,
  // so that a run's allocation sites do not depend on which runs the process executed before
  sim::Plan p;
  p.property = prop::id;
  for (long w = 0; w < 2; ++w)
  {
    p.ops.push_back(sim::Op("text").set("vs", 7).set("n", 6).set("w", w).set("rchunk", 0));
    p.ops.push_back(sim::Op("badname").set("vs", 7).set("w", w).set("v", 1).set("rchunk", 0));
  }
  p.ops.push_back(sim::Op("bin").set("vs", 7).set("n", 6).set("e", 2));
  p.ops.push_back(sim::Op("chars").set("vs", 7).set("n", 9));
  p.ops.push_back(sim::Op("cvt").set("vs", 7).set("n", 9));
  p.ops.push_back(sim::Op("cvt").set("vs", 7).set("n", 9).set("real", 1));
  p.ops.push_back(sim::Op("ionarrow").set("vs", 7).set("n", 5).set("classic", 0));
  p.ops.push_back(sim::Op("ionarrow").set("vs", 7).set("n", 5).set("classic", 1));
  p.ops.push_back(sim::Op("pure").set("vs", 7));
  sim::detail::announce_warmup(p);
  sim::Ctx ctx;
  try
  {
    execute(p, ctx);
  }
  catch (...)
  {
  }
  sim::fault::st().in_sut = false;
}

void generate(sim::Rng &rng, sim::Plan &p, bool)
{
  bool const faulty = rng.chance(1, 2);
  if (faulty)
    p.cfg.set("faulty", 1);
  unsigned const nops = static_cast<unsigned>(rng.range(1, 6));
  for (unsigned k = 0; k < nops; ++k)
  {
    unsigned const kind = static_cast<unsigned>(rng.below(10));
    sim::Op op;
    long const vs = static_cast<long>(rng.below(1000000000));
    if (kind < 3)
    {
      op = sim::Op("bin").set("vs", vs).set("n", static_cast<long>(rng.range(1, 11))).set("e", static_cast<long>(rng.below(3))).set("rchunk", static_cast<long>(rng.below(9)));
      if (faulty)
      {
        unsigned const f = static_cast<unsigned>(rng.below(4));
        if (f == 0)
          op.set("accept", static_cast<long>(rng.below(48)));
        else if (f == 1)
          op.set("trunc", static_cast<long>(rng.below(64)));
        else if (f == 2)
          op.sets("fault", "underflow:" + std::to_string(rng.range(1, 6)));
      }
    }
    else if (kind < 4)
    {
      op = sim::Op("chars").set("vs", vs).set("n", static_cast<long>(rng.below(40))).set("rchunk", static_cast<long>(rng.below(9)));
      if (rng.chance(1, 3))
        op.set("ask", static_cast<long>(rng.below(48)));
      if (faulty)
      {
        unsigned const f = static_cast<unsigned>(rng.below(5));
        if (f == 4)
          op.set("prefail", 1);
        else if (f == 0)
          op.set("accept", static_cast<long>(rng.below(40)));
        else if (f == 1)
          op.set("trunc", static_cast<long>(rng.below(48)));
        else if (f == 2)
          op.sets("fault", "underflow:" + std::to_string(rng.range(1, 6)));
      }
    }
    else if (kind < 6)
    {
      op = sim::Op("text").set("vs", vs).set("n", static_cast<long>(rng.range(1, 7))).set("w", static_cast<long>(rng.below(2))).set("rchunk", static_cast<long>(rng.below(9)));
      if (faulty)
      {
        unsigned const f = static_cast<unsigned>(rng.below(4));
        if (f == 0)
          op.set("accept", static_cast<long>(rng.below(120)));
        else if (f == 1)
          op.set("trunc", static_cast<long>(rng.below(160)));
        else if (f == 2)
          op.sets("fault", "underflow:" + std::to_string(rng.range(1, 12)));
        else
          op.sets("fault", "alloc:" + std::to_string(rng.range(1, 6)));
      }
    }
    else if (kind < 9)
    {
      // short strings are over-represented: the initial buffer is then smaller than one character
      long const n = rng.chance(1, 2) ? static_cast<long>(rng.range(0, 3)) : rng.chance(1, 8) ? static_cast<long>(rng.range(41, 2048)) : static_cast<long>(rng.below(41));
      op = sim::Op("cvt").set("vs", vs).set("n", n);
      if (!faulty && rng.chance(1, 2))
        op.set("real", 1);
      if (faulty)
      {
        unsigned const f = static_cast<unsigned>(rng.below(6));
        if (f == 0)
          op.set("window", static_cast<long>(rng.range(1, 12)));
        else if (f == 5)
          op.set("stall", static_cast<long>(rng.below(n > 40 ? 2 * n : 45)));
        else if (f == 1)
          op.set("ferr", static_cast<long>(rng.below(n > 40 ? 2 * n : 45)));
        else if (f == 2)
          op.set("ferr2", static_cast<long>(rng.below(n > 40 ? 4 * n : 120)));
        else if (f == 3)
          op.set("tear", static_cast<long>(rng.below(n > 40 ? 4 * n : 200)));
      }
    }
    else
    {
      op = sim::Op("pure").set("vs", vs).set("th", static_cast<long>(rng.below(2)));
      if (faulty && rng.chance(1, 2))
        op.sets("fault", "alloc:" + std::to_string(rng.range(1, 10)));
    }
    p.ops.push_back(op);
    // stream input of malformed names and io::narrow_string ride along with every plan
    if (rng.chance(1, 3))
      p.ops.push_back(sim::Op("badname").set("vs", static_cast<long>(rng.below(1000000000))).set("w", static_cast<long>(rng.below(2))).set("v", static_cast<long>(rng.below(5))).set("rchunk", static_cast<long>(rng.below(9))));
    if (rng.chance(1, 4))
      p.ops.push_back(sim::Op("ionarrow").set("vs", static_cast<long>(rng.below(1000000000))).set("n", static_cast<long>(rng.below(12))).set("classic", static_cast<long>(rng.below(2))));
  }
}

void execute(sim::Plan const &p, sim::Ctx &ctx)
{
  World w(ctx);
  w.run(p);
}
}

int main(int argc, char **argv)
{
  // The property speaks of a UTF-8 locale and some entry points take the environment's: the process
  // is started again with LC_ALL=C.UTF-8 unless it already has it, so that even a locale captured
  // during static initialisation is the right one.
  char const *const lc = std::getenv("LC_ALL");
  if (lc == nullptr || std::strcmp(lc, "C.UTF-8") != 0)
  {
    ::setenv("LC_ALL", "C.UTF-8", 1);
    ::execv("/proc/self/exe", argv);
  }
  return sim::sim_main(argc, argv);
}
