// Shared between the sequential and the concurrent engine of C19: the finite universe of log
// locations and the "latest setting on a prefix wins" reference model.
#ifndef SIM_PROPS_C19_COMMON_HPP
#define SIM_PROPS_C19_COMMON_HPP
#include <fcppt/log/level.hpp>
#include <fcppt/log/location.hpp>
#include <fcppt/log/name.hpp>
#include <fcppt/log/optional_level.hpp>
#include <array>
#include <string>
#include <vector>

namespace c19
{
constexpr unsigned NAMES = 3;
constexpr unsigned DEPTH = 3;
constexpr unsigned LOCS = 1 + 3 + 9 + 27; // all locations of depth 0..3
constexpr int NONE = 6;                   // "no level" (logging disabled)

// The three names per level. Names are arbitrary strings, so besides the plain set there are sets
// in which the third name looks like the first two joined by a separator an implementation might
// use internally ("::" as in location::string(), ": " as in the message prefix, "/", nothing):
// two different locations must stay different however their names are spelled.
inline unsigned &name_variant()
{
  static unsigned v = 0;
  return v;
}
inline char const *name_of(unsigned k)
{
  // (in every set one name is longer than the small-string buffer, so copying it really allocates)
  static char const *const n[6][NAMES] = {
      {"a", "b", "a-rather-long-component-name-beyond-sso"},
      {"a-rather-long-component-name-beyond-sso", "b", "a-rather-long-component-name-beyond-sso::b"},
      {"a-rather-long-component-name-beyond-sso", "b", "a-rather-long-component-name-beyond-sso: b"},
      {"a-rather-long-component-name-beyond-sso", "b", "a-rather-long-component-name-beyond-sso/b"},
      {"a-rather-long-component-name-beyond-sso", "b", "a-rather-long-component-name-beyond-ssob"},
      {"a-rather-long-component-name-beyond-sso", "b", "a-rather-long-component-name-beyond-sso.b"}};
  return n[name_variant() % 6][k % NAMES];
}

// location index -> path of name indices; 0 is the empty location, then depth 1, 2, 3
inline std::vector<unsigned> path_of(unsigned idx)
{
  idx %= LOCS;
  std::vector<unsigned> p;
  if (idx == 0)
    return p;
  unsigned depth = 1, base = 1, count = 3;
  while (idx >= base + count)
  {
    base += count;
    count *= 3;
    ++depth;
  }
  unsigned r = idx - base;
  p.resize(depth);
  for (unsigned d = depth; d-- > 0;)
  {
    p[d] = r % 3;
    r /= 3;
  }
  return p;
}

inline unsigned index_of(std::vector<unsigned> const &p)
{
  unsigned base = 0, count = 1;
  for (std::size_t d = 0; d < p.size(); ++d)
  {
    base += count;
    count *= 3;
  }
  unsigned r = 0;
  for (unsigned x : p)
    r = r * 3 + x;
  return base + r;
}

inline bool is_prefix(std::vector<unsigned> const &a, std::vector<unsigned> const &b)
{
  if (a.size() > b.size())
    return false;
  for (std::size_t k = 0; k < a.size(); ++k)
    if (a[k] != b[k])
      return false;
  return true;
}

inline fcppt::log::location make_location(std::vector<unsigned> const &p)
{
  fcppt::log::location l;
  for (unsigned x : p)
    l /= fcppt::log::name{std::string(name_of(x))};
  return l;
}

inline std::string path_str(std::vector<unsigned> const &p)
{
  std::string r = "/";
  for (unsigned x : p)
    r += std::string(1, "abL"[x % 3]) + "/";
  return r;
}

inline fcppt::log::optional_level to_level(int v)
{
  return v >= NONE || v < 0 ? fcppt::log::optional_level{} : fcppt::log::optional_level{static_cast<fcppt::log::level>(v)};
}
inline int from_level(fcppt::log::optional_level const &l)
{
  return l.has_value() ? static_cast<int>(l.get_unsafe()) : NONE;
}

// the model over the finite universe: level per location; set(S, v) assigns v to every location
// that has S as a prefix - equivalent to "the latest set whose location is a prefix wins"
struct Model
{
  std::array<int, LOCS> level{};
  explicit Model(int root = NONE) { level.fill(root); }
  void set(std::vector<unsigned> const &s, int v)
  {
    for (unsigned k = 0; k < LOCS; ++k)
      if (is_prefix(s, path_of(k)))
        level[k] = v;
  }
  int get(std::vector<unsigned> const &p) const { return level[index_of(p)]; }
  bool operator==(Model const &o) const { return level == o.level; }
  bool operator<(Model const &o) const { return level < o.level; }
};

inline char const *level_name(int v)
{
  static char const *const n[7] = {"verbose", "debug", "info", "warning", "error", "fatal", "none"};
  return n[v < 0 || v > 6 ? 6 : v];
}
}
#endif
