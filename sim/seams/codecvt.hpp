// sim::Codecvt: a std::codecvt<wchar_t,char,mbstate_t> facet layered on the real C.utf8 facet.
// The simulator may (legally) narrow the output window of every conversion call, which turns one
// call into many `partial` results that still make progress, or report `error` once a chosen
// number of input characters has been converted.
#ifndef SIM_SEAMS_CODECVT_HPP
#define SIM_SEAMS_CODECVT_HPP
#include <algorithm>
#include <cwchar>
#include <locale>
#include "../core/ctx.hpp"

namespace sim
{
struct CodecvtCtl
{
  long window = 0;    // 0: unlimited; else output units offered to the real facet per call (first 3 calls)
  long windowed_calls = 0;
  long error_at = -1; // -1: never; else report error when this many input units have been consumed
  long stall_at = -1; // -1: never; else, once this many input units have been consumed, every call
                      // returns `partial` without progress (the rest is an incomplete sequence)
  // observations
  long calls = 0;
  long partials = 0;
  long consumed = 0;
  bool error_fired = false;
  bool stalled = false; // a stall has been reported at least once
  bool zero_progress_partial = false; // a partial result without any progress was returned
  void reset()
  {
    *this = CodecvtCtl{};
  }
};

inline CodecvtCtl &codecvt_ctl()
{
  static CodecvtCtl c;
  return c;
}

class Codecvt : public std::codecvt<wchar_t, char, std::mbstate_t>
{
public:
  using base = std::codecvt<wchar_t, char, std::mbstate_t>;
  explicit Codecvt(std::locale const &under) : base(std::size_t{0}), under_(under), real_(std::use_facet<base>(under_)) {}

protected:
  template <typename From, typename To, typename Call>
  result convert(From const *from, From const *from_end, From const *&from_next, To *to, To *to_end, To *&to_next, Call const &call) const
  {
    CodecvtCtl &c = codecvt_ctl();
    ++c.calls;
    if (fault::hit(fault::facet))
    {
      // per-operation annotation facet:k = the k-th conversion call reports an error
      from_next = from;
      to_next = to;
      c.error_fired = true;
      return base::error;
    }
    From const *fe = from_end;
    bool error_here = false;
    bool stall_here = false;
    if (c.stall_at >= 0)
    {
      long const left = c.stall_at - c.consumed;
      if (left <= 0)
      {
        from_next = from;
        to_next = to;
        c.stalled = true;
        ++c.partials;
        c.zero_progress_partial = true;
        return base::partial;
      }
      if (left < from_end - from)
      {
        fe = from + left;
        stall_here = true;
      }
    }
    if (c.error_at >= 0)
    {
      long const left = c.error_at - c.consumed;
      if (left <= 0)
      {
        from_next = from;
        to_next = to;
        c.error_fired = true;
        return base::error;
      }
      if (left < from_end - from)
      {
        fe = from + left;
        error_here = true;
      }
    }
    To *te = to_end;
    // only the first calls of a conversion are windowed: a facet that says `partial` with room to
    // spare is legal but unlike any real one, and an implementation may take a `partial` with
    // progress for "the output range was full" and enlarge it - geometrically, which an endless
    // series of such answers would turn into an explosion that no real facet can cause
    if (c.window > 0 && c.windowed_calls < 3)
    {
      long const w = std::max<long>(c.window, real_.max_length());
      if (to_end - to > w)
      {
        te = to + w;
        ++c.windowed_calls;
      }
    }
    result r = call(from, fe, from_next, to, te, to_next);
    c.consumed += from_next - from;
    if (r == base::ok && stall_here && from_next == fe)
    {
      // everything before the stall position has been converted; the rest is "incomplete"
      ++c.partials;
      return base::partial;
    }
    if (r == base::ok && error_here && from_next == fe)
    {
      // everything before the error position has been converted
      c.error_fired = true;
      return base::error;
    }
    // only when the simulator itself cut the input short is an `ok` for the shortened input a
    // `partial` for the whole; otherwise the real facet's answer is passed on unchanged (libstdc++
    // answers `ok` without consuming anything when the output range is empty)
    if (r == base::ok && fe != from_end && from_next != from_end)
      r = base::partial;
    if (r == base::partial)
    {
      ++c.partials;
      if (from_next == from && to_next == to)
        c.zero_progress_partial = true;
    }
    return r;
  }

  result do_out(std::mbstate_t &st, wchar_t const *from, wchar_t const *from_end, wchar_t const *&from_next, char *to, char *to_end, char *&to_next) const override
  {
    return convert(from, from_end, from_next, to, to_end, to_next,
                   [&](wchar_t const *f, wchar_t const *fe, wchar_t const *&fn, char *t, char *te, char *&tn) { return real_.out(st, f, fe, fn, t, te, tn); });
  }
  result do_in(std::mbstate_t &st, char const *from, char const *from_end, char const *&from_next, wchar_t *to, wchar_t *to_end, wchar_t *&to_next) const override
  {
    return convert(from, from_end, from_next, to, to_end, to_next,
                   [&](char const *f, char const *fe, char const *&fn, wchar_t *t, wchar_t *te, wchar_t *&tn) { return real_.in(st, f, fe, fn, t, te, tn); });
  }
  result do_unshift(std::mbstate_t &st, char *to, char *to_end, char *&to_next) const override { return real_.unshift(st, to, to_end, to_next); }
  int do_encoding() const noexcept override { return real_.encoding(); }
  bool do_always_noconv() const noexcept override { return false; }
  int do_length(std::mbstate_t &st, char const *from, char const *from_end, std::size_t max) const override { return real_.length(st, from, from_end, max); }
  int do_max_length() const noexcept override { return real_.max_length(); }

private:
  std::locale under_;
  base const &real_;
};

// a locale whose codecvt facet is the simulated one (over C.utf8)
inline std::locale const &sim_locale()
{
  static std::locale const l = [] {
    std::locale const under("C.utf8");
    return std::locale(under, new Codecvt(under));
  }();
  return l;
}

// independent reference encoder
inline std::string utf8_encode(std::wstring const &s)
{
  std::string r;
  for (wchar_t wc : s)
  {
    unsigned long const c = static_cast<unsigned long>(wc);
    if (c < 0x80)
      r.push_back(static_cast<char>(c));
    else if (c < 0x800)
    {
      r.push_back(static_cast<char>(0xC0 | (c >> 6)));
      r.push_back(static_cast<char>(0x80 | (c & 0x3F)));
    }
    else if (c < 0x10000)
    {
      r.push_back(static_cast<char>(0xE0 | (c >> 12)));
      r.push_back(static_cast<char>(0x80 | ((c >> 6) & 0x3F)));
      r.push_back(static_cast<char>(0x80 | (c & 0x3F)));
    }
    else
    {
      r.push_back(static_cast<char>(0xF0 | (c >> 18)));
      r.push_back(static_cast<char>(0x80 | ((c >> 12) & 0x3F)));
      r.push_back(static_cast<char>(0x80 | ((c >> 6) & 0x3F)));
      r.push_back(static_cast<char>(0x80 | (c & 0x3F)));
    }
  }
  return r;
}
}
#endif
