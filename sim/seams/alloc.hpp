// Allocation seams.
//  sim::Alloc<T>  - allocator template argument for raw_vector / buffer: fails on the simulator's
//                   order, and keeps an exact ledger (pointer, element count) of live blocks.
//  sim::heap      - counters kept by the replaced global operator new/delete (new_delete.cpp).
#ifndef SIM_SEAMS_ALLOC_HPP
#define SIM_SEAMS_ALLOC_HPP
#include <cstddef>
#include <cstdlib>
#include <map>
#include <new>
#include <string>
#include "../core/ctx.hpp"

namespace sim
{
struct Ledger
{
  // pointer-keyed: used for membership tests only, never iterated for a decision
  std::map<void *, std::size_t> live;
  std::uint64_t allocs = 0;
  std::uint64_t deallocs = 0;
  std::string error; // first inconsistency seen (deallocate cannot throw)

  void reset()
  {
    // forget (do not free) anything a failed run left behind: a violation ends the run anyway
    live.clear();
    allocs = deallocs = 0;
    error.clear();
  }
  void fail(std::string const &e)
  {
    if (error.empty())
      error = e;
  }
};

inline Ledger &ledger()
{
  static Ledger l;
  return l;
}

template <typename T>
struct Alloc
{
  using value_type = T;
  using size_type = std::size_t;
  using difference_type = std::ptrdiff_t;
  using pointer = T *;
  using const_pointer = T const *;

  Alloc() noexcept = default;
  template <typename U>
  Alloc(Alloc<U> const &) noexcept // NOLINT
  {
  }

  T *allocate(std::size_t n)
  {
    if (fault::hit(fault::alloc))
      throw std::bad_alloc();
    // always a distinct, non-null block (also for n == 0) so that every block is tracked
    void *p = std::malloc(n * sizeof(T) == 0 ? 1 : n * sizeof(T));
    if (p == nullptr)
      throw std::bad_alloc();
    Ledger &l = ledger();
    l.live[p] = n;
    ++l.allocs;
    return static_cast<T *>(p);
  }

  void deallocate(T *p, std::size_t n) noexcept
  {
    Ledger &l = ledger();
    auto it = l.live.find(static_cast<void *>(p));
    if (it == l.live.end())
    {
      l.fail("ledger:free-of-unknown-or-freed-block");
      return; // do not pass it to free(): keep the process alive so the plan can be reported
    }
    if (it->second != n)
      l.fail("ledger:deallocate-size-mismatch allocated=" + std::to_string(it->second) +
             " deallocated=" + std::to_string(n));
    l.live.erase(it);
    ++l.deallocs;
    std::free(p);
  }

  template <typename U>
  bool operator==(Alloc<U> const &) const noexcept
  {
    return true;
  }
  template <typename U>
  bool operator!=(Alloc<U> const &) const noexcept
  {
    return false;
  }
};

// global operator new/delete bookkeeping (defined in new_delete.cpp)
namespace heap
{
// number of live blocks that were allocated while code under test was running
long live_sut();
std::uint64_t total_sut();
}
}
#endif
