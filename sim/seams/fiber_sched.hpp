// Deterministic thread scheduler for the concurrent engine of C19.
// Simulated threads are ucontext fibers on the process's single OS thread; every lock, unlock and
// atomic access of the code under test is a scheduling point (link-time wrappers, see
// fiber_sched.cpp). ThreadSanitizer is driven through its fiber API with no-sync switches, so the
// only happens-before edges it sees are the code under test's own mutex and atomic operations.
// This header is included by instrumented code; the implementation is compiled WITHOUT
// -fsanitize=thread so that the scheduler's own state is invisible to the race detector.
#ifndef SIM_SEAMS_FIBER_SCHED_HPP
#define SIM_SEAMS_FIBER_SCHED_HPP
#include <cstdint>
#include <functional>
#include <string>
#include <vector>

namespace sim::sched
{
enum class Policy
{
  random,    // uniform among runnable fibers at every scheduling point
  pct,       // random priorities with d-1 priority change points (PCT)
  sticky,    // run until blocked, preempt with small probability
  replay     // follow an explicit choice list (modulo #runnable), then lowest id
};

struct Config
{
  Policy policy = Policy::random;
  std::uint64_t seed = 0;
  unsigned pct_depth = 2;
  unsigned preempt_percent = 10; // for sticky
  std::vector<unsigned> choices;  // for replay
  std::uint64_t max_steps = 20000;
};

struct Result
{
  std::vector<unsigned> choices; // the choice made at every scheduling point with >1 runnable fiber
  std::uint64_t steps = 0;       // scheduling points passed
  std::uint64_t switches = 0;    // context switches
  std::uint64_t parked = 0;      // times a fiber found the mutex taken and was parked
  std::uint64_t preempt_in_cs = 0; // switches away from a fiber that held a mutex
  std::uint64_t interleaving_hash = 0; // hash of the sequence (fiber, sync-op kind, object id)
  unsigned tsan_reports = 0;
  unsigned locks_held_at_end = 0; // mutexes still owned when all fibers had finished
  std::uint64_t alloc_faults_fired = 0;
  bool table_overflow = false; // more locks held at once than the scheduler can record (no verdict)
  bool deadlock = false;
  bool step_bound = false;
  std::string detail;
  std::vector<std::string> fiber_errors; // per fiber: message of an exception caught in the body
};

// history recorder (lives in the uninstrumented TU: fibers share it without synchronisation)
struct Event
{
  unsigned fiber;
  unsigned op;      // index of the operation in the fiber's plan
  bool is_return;
  std::uint64_t seq; // global event sequence number
  long value;        // result (for returns)
};

std::uint64_t record(unsigned fiber, unsigned op, bool is_return, long value);
std::vector<Event> const &history();
void clear_history();

// runs all bodies as fibers to completion under the configured schedule
Result run(std::vector<std::function<void()>> const &bodies, Config const &cfg);

// id of the running fiber (or -1 on the main context)
int current_fiber();

// number of ThreadSanitizer reports since the process started
unsigned tsan_report_count();
// kind of the first report of the last run ("data-race", "lock-order-inversion", ...)
char const *tsan_first_report_kind();

// allocation faults in the concurrent engine: the k-th allocation performed by `fiber` from now on
// throws std::bad_alloc (the replaced operator new lives in the uninstrumented scheduler TU)
void arm_alloc_fault(int fiber, long k);
void disarm_alloc_fault();
bool alloc_fault_fired();

// explicit scheduling point for harness code running inside a fiber
void yield_here(unsigned kind, void const *obj);
}
#endif
