// sim::StreamBuf<Ch>: the simulated file / pipe behind std::basic_istream / basic_ostream.
// Input: an in-memory file served through a get area of `chunk` characters (refilled by
//        underflow), seekable; faults: the k-th refill throws (`underflow`), the k-th seek/tell
//        fails (`seek`), the file is torn after `visible` characters (truncation).
// Output: unbuffered; faults: only `accept_left` more characters are accepted, then overflow /
//        xsputn fail (short, torn write).
#ifndef SIM_SEAMS_STREAMBUF_HPP
#define SIM_SEAMS_STREAMBUF_HPP
#include <algorithm>
#include <cstddef>
#include <ios>
#include <streambuf>
#include <string>
#include <vector>
#include "../core/ctx.hpp"

namespace sim
{
template <typename Ch>
class StreamBuf : public std::basic_streambuf<Ch>
{
public:
  using base = std::basic_streambuf<Ch>;
  using traits = typename base::traits_type;
  using int_type = typename base::int_type;
  using pos_type = typename base::pos_type;
  using off_type = typename base::off_type;
  using string = std::basic_string<Ch>;

  static constexpr std::size_t npos = static_cast<std::size_t>(-1);

  explicit StreamBuf(string data = string(), std::size_t chunk = 0)
      : data_(std::move(data)), chunk_(chunk), area_(chunk == 0 ? 1 : chunk)
  {
    this->setg(area_.data(), area_.data(), area_.data());
  }

  // --- configuration
  void visible(std::size_t n) { visible_ = n; } // characters of data_ that exist for the reader
  void accept_limit(long n) { accept_left_ = n; } // -1: unlimited
  void seekable(bool b) { seekable_ = b; }
  void putback(bool b) { putback_ = b; }
  void avail_hint(bool b) { avail_hint_ = b; }
  std::size_t putback_refused() const { return putback_refused_; }
  // fail the k-th refill from now on, independent of the per-operation fault controller
  void fail_refill_at(long k) { own_refill_target_ = k; own_refill_count_ = 0; }
  string const &data() const { return data_; }
  string &data() { return data_; }

  // --- observations
  bool threw() const { return threw_; }          // a refill has thrown
  std::size_t fault_pos() const { return fault_pos_; } // file offset at which it threw
  bool seek_failed() const { return seek_failed_; }
  std::uint64_t seek_failures() const { return seek_failures_; }
  bool write_refused() const { return write_refused_; }
  std::uint64_t refills() const { return refills_; }
  std::uint64_t seeks() const { return seeks_; }
  std::size_t logical_pos() const
  {
    return base_pos_ + static_cast<std::size_t>(this->gptr() - this->eback());
  }

protected:
  std::size_t size() const { return std::min(visible_, data_.size()); }

  int_type underflow() override
  {
    if (this->gptr() < this->egptr())
      return traits::to_int_type(*this->gptr());
    ++refills_;
    bool own = false;
    if (own_refill_target_ > 0 && ++own_refill_count_ == own_refill_target_)
      own = true;
    if (own || fault::hit(fault::underflow))
    {
      threw_ = true;
      fault_pos_ = logical_pos();
      throw Fault{"simulated read error in underflow"};
    }
    std::size_t const pos = logical_pos();
    if (pos >= size())
      return traits::eof();
    std::size_t const want = chunk_ == 0 ? size() - pos : std::min(chunk_, size() - pos);
    if (area_.size() < want)
    {
      fault::Harness h; // the stub's own storage is never a fault site
      area_.resize(want);
    }
    std::copy(data_.begin() + static_cast<std::ptrdiff_t>(pos),
              data_.begin() + static_cast<std::ptrdiff_t>(pos + want), area_.begin());
    base_pos_ = pos;
    this->setg(area_.data(), area_.data(), area_.data() + want);
    return traits::to_int_type(*this->gptr());
  }

  // in_avail() when the get area is empty: 0 ("don't know", the std::basic_streambuf default), or
  // with avail_hint(true) what a file buffer answers: the characters left in the file, and -1 once
  // there are none ("no more characters will ever be available", a legal answer)
  std::streamsize showmanyc() override
  {
    if (!avail_hint_)
      return 0;
    std::size_t const pos = logical_pos();
    return pos >= size() ? std::streamsize(-1) : static_cast<std::streamsize>(size() - pos);
  }

  // without put-back support nothing stays behind the get pointer once the get area has been
  // used up (with a chunk size of 1 the buffer is unbuffered in effect: no unget ever succeeds)
  int_type uflow() override
  {
    int_type const c = underflow();
    if (traits::eq_int_type(c, traits::eof()))
      return c;
    this->gbump(1);
    if (!putback_)
    {
      base_pos_ = logical_pos();
      this->setg(this->gptr(), this->gptr(), this->egptr());
    }
    return c;
  }

  // putback / unget: with putback(true) one character can always be put back (as with stringbuf
  // and filebuf: when the get area has nothing before gptr, it is re-seated one character
  // earlier); with putback(false) there is no put-back support beyond what the current get area
  // happens to hold - the default of std::basic_streambuf, and what most hand-written stream
  // buffers do
  int_type pbackfail(int_type c) override
  {
    if (!putback_)
    {
      ++putback_refused_;
      return traits::eof();
    }
    std::size_t const pos = logical_pos();
    if (pos == 0 || pos > size())
      return traits::eof();
    Ch const prev = data_[pos - 1];
    if (!traits::eq_int_type(c, traits::eof()) && !traits::eq(traits::to_char_type(c), prev))
      return traits::eof(); // this is a read-only file: only the character that is there
    area_[0] = prev;
    base_pos_ = pos - 1;
    this->setg(area_.data(), area_.data(), area_.data() + 1);
    return traits::not_eof(c);
  }

  pos_type seekoff(off_type off, std::ios_base::seekdir dir, std::ios_base::openmode which) override
  {
    ++seeks_;
    if (!seekable_ || fault::hit(fault::seek))
    {
      seek_failed_ = true;
      ++seek_failures_;
      return pos_type(off_type(-1));
    }
    if ((which & std::ios_base::in) == 0)
    {
      // output position
      if (dir == std::ios_base::cur && off == 0)
        return pos_type(static_cast<off_type>(data_.size()));
      return pos_type(off_type(-1));
    }
    off_type base_off = 0;
    if (dir == std::ios_base::cur)
      base_off = static_cast<off_type>(logical_pos());
    else if (dir == std::ios_base::end)
      base_off = static_cast<off_type>(size());
    off_type const np = base_off + off;
    if (np < 0 || static_cast<std::size_t>(np) > size())
      return pos_type(off_type(-1));
    if (!(dir == std::ios_base::cur && off == 0))
    {
      // reposition: drop the get area
      base_pos_ = static_cast<std::size_t>(np);
      this->setg(area_.data(), area_.data(), area_.data());
    }
    return pos_type(np);
  }

  pos_type seekpos(pos_type pos, std::ios_base::openmode which) override
  {
    return this->seekoff(off_type(pos), std::ios_base::beg, which);
  }

  int_type overflow(int_type c) override
  {
    if (traits::eq_int_type(c, traits::eof()))
      return traits::not_eof(c);
    if (!take(1))
      return traits::eof();
    fault::Harness h;
    data_.push_back(traits::to_char_type(c));
    return c;
  }

  std::streamsize xsputn(Ch const *s, std::streamsize n) override
  {
    std::streamsize const k = static_cast<std::streamsize>(take(static_cast<std::size_t>(n)));
    fault::Harness h;
    data_.append(s, static_cast<std::size_t>(k));
    return k;
  }

  int sync() override
  {
    if (fault::hit(fault::sync))
      return -1;
    return 0;
  }

private:
  // how many of n characters are accepted
  std::size_t take(std::size_t n)
  {
    if (accept_left_ < 0)
      return n == 1 ? 1 : n;
    std::size_t const k = std::min(n, static_cast<std::size_t>(accept_left_));
    accept_left_ -= static_cast<long>(k);
    if (k < n)
      write_refused_ = true;
    return k;
  }

  string data_;
  std::size_t chunk_;
  std::vector<Ch> area_;
  std::size_t base_pos_ = 0;
  std::size_t visible_ = npos;
  long accept_left_ = -1;
  bool seekable_ = true;
  bool putback_ = true;
  bool avail_hint_ = false;
  std::size_t putback_refused_ = 0;
  bool threw_ = false;
  std::size_t fault_pos_ = 0;
  bool seek_failed_ = false;
  std::uint64_t seek_failures_ = 0;
  bool write_refused_ = false;
  long own_refill_target_ = 0;
  long own_refill_count_ = 0;
  std::uint64_t refills_ = 0;
  std::uint64_t seeks_ = 0;
};
}
#endif
