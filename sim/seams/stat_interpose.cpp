// Executable-level interposition of the file-system calls libstdc++'s std::filesystem and
// basic_filebuf reach (stat, lstat, mkdir, open, openat, fopen64). While code under test runs,
// every call is a fault site of kind `errno`; the annotation errno:k:E makes the k-th call fail
// with errno E (default EIO). Everything else passes through to libc.
#include <cerrno>
#include <cstdarg>
#include <cstdio>
#include <dlfcn.h>
#include <fcntl.h>
#include <sys/stat.h>
#include <sys/types.h>
#include "../core/ctx.hpp"

namespace
{
bool strike()
{
  if (!sim::fault::hit(sim::fault::err_no))
    return false;
  long const e = sim::fault::st().param[sim::fault::err_no];
  errno = e > 0 ? static_cast<int>(e) : EIO;
  return true;
}
template <typename F>
F next(char const *name)
{
  return reinterpret_cast<F>(dlsym(RTLD_NEXT, name));
}
}

namespace sim::fs
{
unsigned long calls = 0;
}

extern "C"
{
int stat(char const *path, struct stat *buf)
{
  ++sim::fs::calls;
  if (strike())
    return -1;
  static auto real = next<int (*)(char const *, struct stat *)>("stat");
  return real(path, buf);
}
int lstat(char const *path, struct stat *buf)
{
  ++sim::fs::calls;
  if (strike())
    return -1;
  static auto real = next<int (*)(char const *, struct stat *)>("lstat");
  return real(path, buf);
}
int mkdir(char const *path, mode_t mode)
{
  ++sim::fs::calls;
  if (strike())
    return -1;
  static auto real = next<int (*)(char const *, mode_t)>("mkdir");
  return real(path, mode);
}
int openat(int fd, char const *path, int flags, ...)
{
  mode_t mode = 0;
  if ((flags & O_CREAT) != 0)
  {
    va_list ap;
    va_start(ap, flags);
    mode = static_cast<mode_t>(va_arg(ap, int));
    va_end(ap);
  }
  ++sim::fs::calls;
  if (strike())
    return -1;
  static auto real = next<int (*)(int, char const *, int, ...)>("openat");
  return real(fd, path, flags, mode);
}
FILE *fopen64(char const *path, char const *mode)
{
  ++sim::fs::calls;
  if (strike())
    return nullptr;
  static auto real = next<FILE *(*)(char const *, char const *)>("fopen64");
  return real(path, mode);
}
}
