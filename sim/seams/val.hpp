// sim::Val: the element type placed into fcppt containers that store user values.
// Unique id, heap payload (so a leak or a double destruction is visible to the ledger / ASan),
// copies are fault sites (`copy:k` throws sim::Fault, and the payload allocation is an `alloc`
// site through the replaced operator new); moves never throw; the type's own swap is a `copy` site.
#ifndef SIM_SEAMS_VAL_HPP
#define SIM_SEAMS_VAL_HPP
#include "../core/ctx.hpp"

namespace sim
{
struct ValStats
{
  long live = 0;
  unsigned long copies = 0;
  unsigned long moves = 0;
};
inline ValStats &val_stats()
{
  static ValStats s;
  return s;
}

class Val
{
public:
  explicit Val(long id) : id_(id), payload_(new long(id)) { ++val_stats().live; }
  Val(Val const &o) : id_(o.id_), payload_(nullptr)
  {
    if (fault::hit(fault::copy))
      throw Fault{"simulated failure while copying a value"};
    payload_ = new long(*o.checked());
    ++val_stats().live;
    ++val_stats().copies;
  }
  Val(Val &&o) noexcept : id_(o.id_), payload_(o.payload_)
  {
    o.payload_ = nullptr;
    o.id_ = -1;
    ++val_stats().live;
    ++val_stats().moves;
  }
  Val &operator=(Val const &o)
  {
    if (this == &o)
      return *this;
    if (fault::hit(fault::copy))
      throw Fault{"simulated failure while copying a value"};
    long *const np = new long(*o.checked());
    delete payload_;
    payload_ = np;
    id_ = o.id_;
    ++val_stats().copies;
    return *this;
  }
  Val &operator=(Val &&o) noexcept
  {
    if (this == &o)
      return *this;
    delete payload_;
    payload_ = o.payload_;
    id_ = o.id_;
    o.payload_ = nullptr;
    o.id_ = -1;
    ++val_stats().moves;
    return *this;
  }
  ~Val()
  {
    delete payload_;
    payload_ = nullptr;
    --val_stats().live;
  }
  // the type's own swap (found by argument-dependent lookup, as containers call it): a fault site
  // of kind `copy` - a swap implemented with copies may throw, and nothing has been exchanged then
  friend void swap(Val &a, Val &b)
  {
    if (fault::hit(fault::copy))
      throw Fault{"simulated failure while swapping two values"};
    long const id = a.id_;
    a.id_ = b.id_;
    b.id_ = id;
    long *const p = a.payload_;
    a.payload_ = b.payload_;
    b.payload_ = p;
  }
  long id() const { return id_; }
  bool moved_from() const { return payload_ == nullptr; }
  friend bool operator==(Val const &a, Val const &b) { return a.id_ == b.id_; }
  friend bool operator!=(Val const &a, Val const &b) { return a.id_ != b.id_; }
  friend bool operator<(Val const &a, Val const &b) { return a.id_ < b.id_; }

private:
  long const *checked() const
  {
    if (payload_ == nullptr)
      violate("read-of-moved-from-value", "a moved-from value was copied");
    return payload_;
  }
  long id_;
  long *payload_;
};
}
#endif
