// Replaced global operator new/delete: the allocation seam for everything in fcppt that does not
// take an allocator parameter (tree nodes, signal connections, log context, strings, functions).
// - while code under test runs (fault::st().in_sut) every call is a fault site for kind `alloc`
//   and the returned block is tagged, so that "live blocks allocated by the SUT" is exact;
// - harness allocations are never failed and never tagged.
#include <cstddef>
#include <cstdlib>
#include <new>
#include <unordered_set>
#include "../core/ctx.hpp"
#include "alloc.hpp"

namespace
{
template <typename T>
struct MallocAlloc
{
  using value_type = T;
  MallocAlloc() noexcept = default;
  template <typename U>
  MallocAlloc(MallocAlloc<U> const &) noexcept // NOLINT
  {
  }
  T *allocate(std::size_t n)
  {
    void *p = std::malloc(n * sizeof(T));
    if (p == nullptr)
      std::abort();
    return static_cast<T *>(p);
  }
  void deallocate(T *p, std::size_t) noexcept { std::free(p); }
  template <typename U>
  bool operator==(MallocAlloc<U> const &) const noexcept
  {
    return true;
  }
  template <typename U>
  bool operator!=(MallocAlloc<U> const &) const noexcept
  {
    return false;
  }
};

using TagSet = std::unordered_set<void *, std::hash<void *>, std::equal_to<void *>, MallocAlloc<void *>>;

TagSet &tags()
{
  static TagSet *t = [] {
    void *m = std::malloc(sizeof(TagSet));
    if (m == nullptr)
      std::abort();
    return new (m) TagSet();
  }();
  return *t;
}

std::uint64_t g_total_sut = 0;

void *do_new(std::size_t sz, std::size_t align)
{
  bool const sut = sim::fault::st().in_sut && !sim::fault::st().alloc_off;
  if (sut && sim::fault::hit(sim::fault::alloc))
    return nullptr;
  if (sz == 0)
    sz = 1;
  void *p = nullptr;
  if (align <= alignof(std::max_align_t))
    p = std::malloc(sz);
  else if (posix_memalign(&p, align, sz) != 0)
    p = nullptr;
  if (p != nullptr && sut)
  {
    tags().insert(p);
    ++g_total_sut;
  }
  return p;
}

void do_delete(void *p) noexcept
{
  if (p == nullptr)
    return;
  TagSet &t = tags();
  if (!t.empty())
    t.erase(p);
  std::free(p);
}
}

namespace sim::heap
{
long live_sut() { return static_cast<long>(tags().size()); }
std::uint64_t total_sut() { return g_total_sut; }
}

void *operator new(std::size_t sz)
{
  void *p = do_new(sz, 1);
  if (p == nullptr)
    throw std::bad_alloc();
  return p;
}
void *operator new[](std::size_t sz)
{
  void *p = do_new(sz, 1);
  if (p == nullptr)
    throw std::bad_alloc();
  return p;
}
void *operator new(std::size_t sz, std::nothrow_t const &) noexcept { return do_new(sz, 1); }
void *operator new[](std::size_t sz, std::nothrow_t const &) noexcept { return do_new(sz, 1); }
void *operator new(std::size_t sz, std::align_val_t a)
{
  void *p = do_new(sz, static_cast<std::size_t>(a));
  if (p == nullptr)
    throw std::bad_alloc();
  return p;
}
void *operator new[](std::size_t sz, std::align_val_t a)
{
  void *p = do_new(sz, static_cast<std::size_t>(a));
  if (p == nullptr)
    throw std::bad_alloc();
  return p;
}
void operator delete(void *p) noexcept { do_delete(p); }
void operator delete[](void *p) noexcept { do_delete(p); }
void operator delete(void *p, std::size_t) noexcept { do_delete(p); }
void operator delete[](void *p, std::size_t) noexcept { do_delete(p); }
void operator delete(void *p, std::align_val_t) noexcept { do_delete(p); }
void operator delete[](void *p, std::align_val_t) noexcept { do_delete(p); }
void operator delete(void *p, std::size_t, std::align_val_t) noexcept { do_delete(p); }
void operator delete[](void *p, std::size_t, std::align_val_t) noexcept { do_delete(p); }
void operator delete(void *p, std::nothrow_t const &) noexcept { do_delete(p); }
void operator delete[](void *p, std::nothrow_t const &) noexcept { do_delete(p); }
