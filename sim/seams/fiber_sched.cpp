// Fiber scheduler + link-time wrappers. Compiled WITHOUT -fsanitize=thread (see fiber_sched.hpp).
#include "fiber_sched.hpp"
#include <cstdio>
#include <cstdlib>
#include <cstring>
#include <exception>
#include <link.h>
#include <new>
#include <pthread.h>
#include <typeinfo>
#include <ucontext.h>
#include "../core/ctx.hpp"
#include "../core/rng.hpp"

extern "C"
{
void *__tsan_get_current_fiber(void);
void *__tsan_create_fiber(unsigned flags);
void __tsan_destroy_fiber(void *fiber);
void __tsan_switch_to_fiber(void *fiber, unsigned flags);
int __real_pthread_mutex_lock(pthread_mutex_t *);
int __real_pthread_mutex_unlock(pthread_mutex_t *);
int __real_pthread_mutex_trylock(pthread_mutex_t *);
int __real_pthread_rwlock_rdlock(pthread_rwlock_t *);
int __real_pthread_rwlock_wrlock(pthread_rwlock_t *);
int __real_pthread_rwlock_tryrdlock(pthread_rwlock_t *);
int __real_pthread_rwlock_trywrlock(pthread_rwlock_t *);
int __real_pthread_rwlock_unlock(pthread_rwlock_t *);
int __real___cxa_thread_atexit(void (*)(void *), void *, void *);
void AnnotateBenignRaceSized(char const *file, int line, void const volatile *mem, unsigned long size, char const *desc);
}

// the C++ runtime's per-thread exception state (libsupc++ unwind-cxx.h: caughtExceptions,
// uncaughtExceptions); every fiber is a thread of its own as far as the code under test knows
struct EhGlobals
{
  void *caught;
  unsigned uncaught;
};
namespace __cxxabiv1
{
extern "C" EhGlobals *__cxa_get_globals() noexcept;
}

namespace
{
constexpr unsigned NO_SYNC = 1; // __tsan_switch_to_fiber_no_sync
constexpr std::size_t STACK = 512 * 1024;

enum Kind : unsigned
{
  K_LOCK = 1,
  K_UNLOCK = 2,
  K_ATOMIC_LOAD = 3,
  K_ATOMIC_STORE = 4,
  K_ATOMIC_RMW = 5,
  K_OP = 6
};

enum class State
{
  fresh,
  runnable,
  parked,
  done
};

struct Fiber
{
  ucontext_t ctx;
  void *stack = nullptr;
  void *tsan = nullptr;
  State state = State::fresh;
  pthread_mutex_t *waiting = nullptr;
  pthread_rwlock_t *waiting_rw = nullptr;
  std::function<void()> const *body = nullptr;
  long priority = 0;
  unsigned held = 0;
  bool joined = false;
  std::string error;
  // what is per thread in a real program: exception-handling state, thread_local variables of
  // the executable (with the destructors registered for them)
  EhGlobals eh{nullptr, 0};
  std::vector<unsigned char> tls;
  struct TlsDtor
  {
    void (*fn)(void *);
    void *obj;
  };
  TlsDtor dtors[32];
  unsigned ndtors = 0;
};

// the executable's thread-local block of the (only) OS thread
struct TlsBlock
{
  bool looked_up = false;
  unsigned char *addr = nullptr; // this thread's instance
  std::size_t memsz = 0;
  unsigned char const *image = nullptr; // initialisation image
  std::size_t filesz = 0;
} g_tls;
std::vector<unsigned char> g_main_tls;
EhGlobals g_main_eh{nullptr, 0};

int find_tls(dl_phdr_info *info, std::size_t, void *)
{
  // the first object reported is the executable itself
  for (int k = 0; k < info->dlpi_phnum; ++k)
    if (info->dlpi_phdr[k].p_type == PT_TLS)
    {
      g_tls.addr = static_cast<unsigned char *>(info->dlpi_tls_data);
      g_tls.memsz = info->dlpi_phdr[k].p_memsz;
      g_tls.filesz = info->dlpi_phdr[k].p_filesz;
      g_tls.image = reinterpret_cast<unsigned char const *>(info->dlpi_addr + info->dlpi_phdr[k].p_vaddr);
    }
  return 1; // stop after the executable
}

// plain byte loops: memcpy would go through the race detector's interceptor
__attribute__((optimize("no-tree-loop-distribute-patterns"))) void copy_bytes(unsigned char volatile *to, unsigned char const volatile *from, std::size_t n)
{
  for (std::size_t k = 0; k < n; ++k)
    to[k] = from[k];
}

struct Owner
{
  pthread_mutex_t *m;
  int fiber;
  unsigned depth; // > 1 only for recursive mutexes
};

// reader/writer locks (std::shared_mutex): simulated ownership
struct RwOwner
{
  pthread_rwlock_t *l;
  int writer;                 // fiber holding it exclusively, or -1
  int readers[8];             // fibers holding it shared
  unsigned nreaders;
};

struct Sched
{
  ucontext_t main_ctx;
  void *main_tsan = nullptr;
  std::vector<Fiber> fibers;
  std::vector<Owner> owners;
  std::vector<RwOwner> rwowners;
  std::vector<void const *> objects;
  int cur = -1;
  bool active = false;
  sim::sched::Config cfg;
  sim::sched::Result res;
  sim::Rng rng{0};
  std::size_t replay_pos = 0;
  std::vector<std::uint64_t> change_points;
  long lowest_priority = 0;
  bool abandoned = false;
  int spin_fiber = -1;
  void const *spin_obj = nullptr;
  unsigned spin_count = 0;
  bool force_other = false; // the next choice must not be the running fiber (spin-wait demotion)
};

Sched g;
int g_fault_fiber = -2;
long g_fault_k = 0;
long g_fault_count = 0;
bool g_fault_fired = false;
std::uint64_t g_fault_total = 0;
std::vector<sim::sched::Event> g_history;
std::uint64_t g_seq = 0;
unsigned g_tsan_reports = 0;
std::vector<void *> g_stack_pool;

// wrapped calls made while no fiber runs, or by another OS thread (the watchdog), are not the
// simulation's business
pthread_t g_sim_thread;
inline bool outside_simulation()
{
  return !g.active || g.cur < 0 || pthread_equal(pthread_self(), g_sim_thread) == 0;
}

void hash_event(unsigned fiber, unsigned kind, void const *obj)
{
  std::size_t id = g.objects.size();
  for (std::size_t k = 0; k < g.objects.size(); ++k)
    if (g.objects[k] == obj)
    {
      id = k;
      break;
    }
  if (id == g.objects.size() && g.objects.size() < g.objects.capacity())
    g.objects.push_back(obj);
  std::uint64_t h = g.res.interleaving_hash;
  h ^= (static_cast<std::uint64_t>(fiber) << 40) ^ (static_cast<std::uint64_t>(kind) << 32) ^ id;
  h *= 1099511628211ULL;
  h ^= h >> 29;
  g.res.interleaving_hash = h;
}

// per-thread state that lives at fixed addresses of the one OS thread: saved for the context
// that stops running, loaded for the one that continues
void swap_thread_state(int prev, int next)
{
  if (prev == next)
    return;
  EhGlobals *const eh = __cxxabiv1::__cxa_get_globals();
  EhGlobals &save_eh = prev < 0 ? g_main_eh : g.fibers[static_cast<std::size_t>(prev)].eh;
  EhGlobals const &load_eh = next < 0 ? g_main_eh : g.fibers[static_cast<std::size_t>(next)].eh;
  save_eh = *eh;
  *eh = load_eh;
  if (g_tls.addr != nullptr && g_tls.memsz != 0)
  {
    std::vector<unsigned char> &save = prev < 0 ? g_main_tls : g.fibers[static_cast<std::size_t>(prev)].tls;
    std::vector<unsigned char> const &load = next < 0 ? g_main_tls : g.fibers[static_cast<std::size_t>(next)].tls;
    copy_bytes(save.data(), g_tls.addr, g_tls.memsz);
    copy_bytes(g_tls.addr, load.data(), g_tls.memsz);
  }
}

void switch_to(int next, unsigned flags)
{
  // next == -1: the main context
  int const prev = g.cur;
  ucontext_t *from = prev < 0 ? &g.main_ctx : &g.fibers[static_cast<std::size_t>(prev)].ctx;
  ucontext_t *to = next < 0 ? &g.main_ctx : &g.fibers[static_cast<std::size_t>(next)].ctx;
  void *to_tsan = next < 0 ? g.main_tsan : g.fibers[static_cast<std::size_t>(next)].tsan;
  if (prev >= 0 && next != prev && g.fibers[static_cast<std::size_t>(prev)].held != 0 && g.fibers[static_cast<std::size_t>(prev)].state == State::runnable)
    ++g.res.preempt_in_cs;
  swap_thread_state(prev, next);
  g.cur = next;
  ++g.res.switches;
  __tsan_switch_to_fiber(to_tsan, flags);
  swapcontext(from, to);
}

// give up the run: back to the main context, fiber stacks are abandoned
[[noreturn]] void abandon(char const *why)
{
  g.abandoned = true;
  g.res.detail = why;
  swap_thread_state(g.cur, -1);
  g.cur = -1;
  __tsan_switch_to_fiber(g.main_tsan, 0);
  setcontext(&g.main_ctx);
  std::abort();
}

int pick_next()
{
  // runnable fibers in id order
  int runnable[16];
  unsigned n = 0;
  for (std::size_t k = 0; k < g.fibers.size() && n < 16; ++k)
    if (g.fibers[k].state == State::runnable)
      runnable[n++] = static_cast<int>(k);
  if (n == 0)
    return -1;
  if (n == 1)
    return runnable[0];
  unsigned choice = 0;
  if (g.force_other && g.cfg.policy != sim::sched::Policy::replay)
  {
    // spin-wait demotion: the lowest-numbered runnable fiber other than the running one
    g.force_other = false;
    for (unsigned k = 0; k < n; ++k)
      if (runnable[k] != g.cur)
      {
        g.res.choices.push_back(k);
        return runnable[k];
      }
  }
  g.force_other = false;
  switch (g.cfg.policy)
  {
  case sim::sched::Policy::random:
    choice = static_cast<unsigned>(g.rng.below(n));
    break;
  case sim::sched::Policy::sticky:
  {
    int pos = -1;
    for (unsigned k = 0; k < n; ++k)
      if (runnable[k] == g.cur)
        pos = static_cast<int>(k);
    if (pos >= 0 && g.rng.below(100) >= g.cfg.preempt_percent)
      choice = static_cast<unsigned>(pos);
    else
      choice = static_cast<unsigned>(g.rng.below(n));
    break;
  }
  case sim::sched::Policy::pct:
  {
    for (std::uint64_t cp : g.change_points)
      if (cp == g.res.steps && g.cur >= 0)
        g.fibers[static_cast<std::size_t>(g.cur)].priority = --g.lowest_priority;
    long best = 0;
    bool have = false;
    for (unsigned k = 0; k < n; ++k)
    {
      long const p = g.fibers[static_cast<std::size_t>(runnable[k])].priority;
      if (!have || p > best)
      {
        best = p;
        choice = k;
        have = true;
      }
    }
    break;
  }
  case sim::sched::Policy::replay:
    if (g.replay_pos < g.cfg.choices.size())
      choice = g.cfg.choices[g.replay_pos] % n;
    else
      choice = 0;
    ++g.replay_pos;
    break;
  }
  g.res.choices.push_back(choice);
  return runnable[choice];
}

void sched_point(unsigned kind, void const *obj)
{
  if (outside_simulation())
    return;
  ++g.res.steps;
  hash_event(static_cast<unsigned>(g.cur), kind, obj);
  // a fiber that keeps hitting the same object (a spin-wait) while nobody else gets to run is
  // demoted, so that a correct spin lock cannot livelock the one-thread simulator
  if (g.spin_fiber == g.cur && g.spin_obj == obj)
  {
    if (++g.spin_count >= 24)
    {
      g.spin_count = 0;
      g.fibers[static_cast<std::size_t>(g.cur)].priority = --g.lowest_priority;
      g.force_other = true;
    }
  }
  else
  {
    g.spin_fiber = g.cur;
    g.spin_obj = obj;
    g.spin_count = 0;
  }
  if (g.res.steps > g.cfg.max_steps)
  {
    g.res.step_bound = true;
    abandon("step bound exceeded");
  }
  int const next = pick_next();
  if (next >= 0 && next != g.cur)
    switch_to(next, NO_SYNC);
}

// the running fiber cannot continue (parked or done): someone else must run
void must_switch()
{
  int const next = pick_next();
  if (next >= 0)
  {
    switch_to(next, NO_SYNC);
    return;
  }
  // nothing runnable
  bool anyone_parked = false;
  for (Fiber const &f : g.fibers)
    anyone_parked = anyone_parked || f.state == State::parked;
  if (anyone_parked)
  {
    g.res.deadlock = true;
    std::string d = "deadlock:";
    for (std::size_t k = 0; k < g.fibers.size(); ++k)
      if (g.fibers[k].state == State::parked)
      {
        int owner = -1;
        for (Owner const &o : g.owners)
          if (o.m == g.fibers[k].waiting)
            owner = o.fiber;
        d += " fiber" + std::to_string(k) + "->" + (owner < 0 ? std::string("nobody") : "fiber" + std::to_string(owner));
      }
    static std::string keep;
    keep = d;
    abandon(keep.c_str());
  }
  // all done
  switch_to(-1, NO_SYNC);
}

void trampoline()
{
  Fiber &self = g.fibers[static_cast<std::size_t>(g.cur)];
  int const me = g.cur;
  // first entry came from main with a synchronising switch (like pthread_create); hand back
  switch_to(-1, NO_SYNC);
  try
  {
    (*self.body)();
  }
  catch (sim::Violation const &v)
  {
    g.fibers[static_cast<std::size_t>(me)].error = "violation:" + v.cls + ":" + v.detail;
  }
  catch (std::exception const &e)
  {
    g.fibers[static_cast<std::size_t>(me)].error = std::string("exception:") + typeid(e).name() + ":" + e.what();
  }
  catch (...)
  {
    g.fibers[static_cast<std::size_t>(me)].error = "exception:unknown";
  }
  {
    // thread exit: destructors of this fiber's thread_local objects, latest first
    Fiber &f = g.fibers[static_cast<std::size_t>(me)];
    while (f.ndtors != 0)
    {
      --f.ndtors;
      f.dtors[f.ndtors].fn(f.dtors[f.ndtors].obj);
    }
  }
  g.fibers[static_cast<std::size_t>(me)].state = State::done;
  must_switch();
  // re-entered by main for the join: hand back with a synchronising switch (like pthread_join)
  g.fibers[static_cast<std::size_t>(me)].joined = true;
  switch_to(-1, 0);
  std::abort();
}

// more locks held at once than the tables can record: no verdict from this run (infrastructure)
[[noreturn]] void table_overflow()
{
  g.res.table_overflow = true;
  abandon("scheduler table overflow");
}

int owner_of(pthread_mutex_t *m)
{
  for (Owner const &o : g.owners)
    if (o.m == m)
      return o.fiber;
  return -1;
}
}

extern "C" int __tsan_get_report_data(void *report, char const **description, int *count, int *stack_count, int *mop_count, int *loc_count, int *mutex_count, int *thread_count, int *unique_tid_count, void **sleep_trace, unsigned long trace_size);

namespace
{
char g_first_report[64] = "";
}

extern "C" void __tsan_on_report(void *rep)
{
  if (g_tsan_reports == 0 || g_first_report[0] == 0)
  {
    char const *desc = nullptr;
    int a = 0, b = 0, c = 0, d = 0, e = 0, f = 0, h = 0;
    void *trace[1] = {nullptr};
    if (__tsan_get_report_data(rep, &desc, &a, &b, &c, &d, &e, &f, &h, trace, 1) != 0 && desc != nullptr)
    {
      std::size_t k = 0;
      for (; desc[k] != 0 && k + 1 < sizeof g_first_report; ++k)
        g_first_report[k] = desc[k] == ' ' ? '-' : desc[k];
      g_first_report[k] = 0;
    }
  }
  ++g_tsan_reports;
}

namespace sim::sched
{
std::uint64_t record(unsigned fiber, unsigned op, bool is_return, long value)
{
  std::uint64_t const s = ++g_seq;
  if (g_history.size() < g_history.capacity() || !g.active)
    g_history.push_back(Event{fiber, op, is_return, s, value});
  return s;
}
std::vector<Event> const &history() { return g_history; }
void clear_history()
{
  g_history.clear();
  g_seq = 0;
}
int current_fiber() { return g.active ? g.cur : -1; }
unsigned tsan_report_count() { return g_tsan_reports; }
char const *tsan_first_report_kind()
{
  return g_first_report[0] != 0 ? g_first_report : "report";
}
void tsan_reset_report_kind() { g_first_report[0] = 0; }
void yield_here(unsigned kind, void const *obj) { sched_point(K_OP + kind, obj); }
void arm_alloc_fault(int fiber, long k)
{
  g_fault_fiber = fiber;
  g_fault_k = k;
  g_fault_count = 0;
  g_fault_fired = false;
}
void disarm_alloc_fault() { g_fault_fiber = -2; }
bool alloc_fault_fired() { return g_fault_fired; }

Result run(std::vector<std::function<void()>> const &bodies, Config const &cfg)
{
  g.cfg = cfg;
  g.res = Result{};
  g.rng = sim::Rng(cfg.seed);
  g.replay_pos = 0;
  g.owners.clear();
  g.objects.clear();
  g.abandoned = false;
  g.spin_fiber = -1;
  g.spin_obj = nullptr;
  g.spin_count = 0;
  g.force_other = false;
  g.fibers.clear();
  g.fibers.resize(bodies.size());
  // Everything the scheduler touches while fibers run is allocated here, on the main context:
  // the race detector intercepts operator new / memmove even in uninstrumented code, so growing a
  // container inside a fiber would show up as a race on the scheduler's own memory.
  g.res.choices.reserve(static_cast<std::size_t>(cfg.max_steps) + 64);
  g.owners.reserve(64);
  g.rwowners.clear();
  g.rwowners.reserve(16);
  g.objects.reserve(4096);
  g_history.reserve(8192);
  g.main_tsan = __tsan_get_current_fiber();
  g_sim_thread = pthread_self();
  if (!g_tls.looked_up)
  {
    g_tls.looked_up = true;
    dl_iterate_phdr(&find_tls, nullptr);
    if (g_tls.addr != nullptr && g_tls.memsz != 0)
      // every fiber has its own copy of this block, swapped in while it runs: the same addresses
      // are used by all of them without being shared, which is not a race
      AnnotateBenignRaceSized(__FILE__, __LINE__, g_tls.addr, g_tls.memsz, "per-fiber thread-local storage");
  }
  if (g_tls.addr != nullptr && g_tls.memsz != 0)
  {
    g_main_tls.assign(g_tls.memsz, 0);
    for (Fiber &f : g.fibers)
    {
      // a new thread starts from the initialisation image
      f.tls.assign(g_tls.memsz, 0);
      for (std::size_t k = 0; k < g_tls.filesz; ++k)
        f.tls[k] = g_tls.image[k];
    }
  }
  unsigned const before_reports = g_tsan_reports;
  g_first_report[0] = 0;
  // PCT: random distinct priorities, d-1 change points among the first steps
  g.lowest_priority = 0;
  g.change_points.clear();
  if (cfg.policy == Policy::pct)
  {
    std::vector<long> prios;
    for (std::size_t k = 0; k < bodies.size(); ++k)
      prios.push_back(static_cast<long>(k) + 1);
    for (std::size_t k = prios.size(); k > 1; --k)
      std::swap(prios[k - 1], prios[g.rng.below(k)]);
    for (std::size_t k = 0; k < bodies.size(); ++k)
      g.fibers[k].priority = prios[k];
    for (unsigned k = 1; k < cfg.pct_depth; ++k)
      g.change_points.push_back(1 + g.rng.below(120));
  }
  for (std::size_t k = 0; k < bodies.size(); ++k)
  {
    Fiber &f = g.fibers[k];
    f.body = &bodies[k];
    if (!g_stack_pool.empty())
    {
      f.stack = g_stack_pool.back();
      g_stack_pool.pop_back();
    }
    else
      f.stack = std::malloc(STACK);
    getcontext(&f.ctx);
    f.ctx.uc_stack.ss_sp = f.stack;
    f.ctx.uc_stack.ss_size = STACK;
    f.ctx.uc_link = nullptr;
    makecontext(&f.ctx, &trampoline, 0);
    f.tsan = __tsan_create_fiber(0);
  }
  g.active = true;
  // start every fiber from main (synchronising, like pthread_create); it hands back at once
  for (std::size_t k = 0; k < bodies.size(); ++k)
  {
    switch_to(static_cast<int>(k), 0);
    g.fibers[k].state = State::runnable;
  }
  g.res.switches = 0;
  // run
  if (!g.abandoned)
  {
    int const first = pick_next();
    if (first >= 0)
      switch_to(first, NO_SYNC);
  }
  // back on main: either everything is done, or the run was abandoned
  if (!g.abandoned)
  {
    for (std::size_t k = 0; k < bodies.size(); ++k)
    {
      // join (the fiber hands back with a synchronising switch)
      switch_to(static_cast<int>(k), NO_SYNC);
    }
    for (Fiber &f : g.fibers)
    {
      __tsan_destroy_fiber(f.tsan);
      g_stack_pool.push_back(f.stack);
    }
  }
  g.active = false;
  g.cur = -1;
  for (Fiber &f : g.fibers)
    g.res.fiber_errors.push_back(f.error);
  g.res.tsan_reports = g_tsan_reports - before_reports;
  g.res.locks_held_at_end = static_cast<unsigned>(g.owners.size());
  for (RwOwner const &r : g.rwowners)
    if (r.writer >= 0 || r.nreaders != 0)
      ++g.res.locks_held_at_end;
  g.res.alloc_faults_fired = g_fault_total;
  g_fault_total = 0;
  g_fault_fiber = -2;
  Result r = g.res;
  g.fibers.clear();
  return r;
}
}

// ------------------------------------------------------------------ allocation seam
// Replaced global operator new (the executable's definition wins over the race detector's
// interceptor; malloc underneath is still seen by it). Only the armed fiber's k-th allocation fails.
namespace
{
void *conc_new(std::size_t sz)
{
  if (g_fault_fiber != -2 && g.active && g.cur == g_fault_fiber && ++g_fault_count == g_fault_k)
  {
    g_fault_fired = true;
    ++g_fault_total;
    g_fault_fiber = -2;
    throw std::bad_alloc();
  }
  void *p = std::malloc(sz == 0 ? 1 : sz);
  if (p == nullptr)
    throw std::bad_alloc();
  return p;
}
}
void *operator new(std::size_t sz) { return conc_new(sz); }
void *operator new[](std::size_t sz) { return conc_new(sz); }
void operator delete(void *p) noexcept { std::free(p); }
void operator delete[](void *p) noexcept { std::free(p); }
void operator delete(void *p, std::size_t) noexcept { std::free(p); }
void operator delete[](void *p, std::size_t) noexcept { std::free(p); }

// ------------------------------------------------------------------ link-time wrappers
extern "C"
{
// registration of a thread_local object's destructor: inside a fiber it belongs to that fiber and
// runs when the fiber ends (a thread exit as far as the code under test knows)
int __wrap___cxa_thread_atexit(void (*fn)(void *), void *obj, void *dso)
{
  if (outside_simulation())
    return __real___cxa_thread_atexit(fn, obj, dso);
  Fiber &f = g.fibers[static_cast<std::size_t>(g.cur)];
  if (f.ndtors >= 32)
    table_overflow();
  f.dtors[f.ndtors].fn = fn;
  f.dtors[f.ndtors].obj = obj;
  ++f.ndtors;
  return 0;
}

int __wrap_pthread_mutex_lock(pthread_mutex_t *m)
{
  if (outside_simulation())
    return __real_pthread_mutex_lock(m);
  sched_point(K_LOCK, m);
  while (owner_of(m) >= 0 && owner_of(m) != g.cur)
  {
    Fiber &self = g.fibers[static_cast<std::size_t>(g.cur)];
    self.state = State::parked;
    self.waiting = m;
    ++g.res.parked;
    must_switch();
  }
  if (owner_of(m) == g.cur)
  {
    // re-locking a mutex the fiber already owns: fine for a recursive mutex (and an error-checking
    // one answers EDEADLK); a plain one would block the only OS thread for good - that is a
    // deadlock of the fiber with itself (typically: an exception left a critical section without
    // unlocking), reported as such
    int const kind = m->__data.__kind & 3; // glibc: 0 normal, 1 recursive, 2 errorcheck, 3 adaptive
    if (kind == 0 || kind == 3)
    {
      g.res.deadlock = true;
      static std::string keep;
      keep = "deadlock: fiber" + std::to_string(g.cur) + "->fiber" + std::to_string(g.cur) + " (locks a non-recursive mutex it already owns)";
      abandon(keep.c_str());
    }
    int const r = __real_pthread_mutex_lock(m);
    if (r == 0) // (an error-checking mutex answers EDEADLK and is not acquired again)
      for (Owner &o : g.owners)
        if (o.m == m)
          ++o.depth;
    return r;
  }
  if (g.owners.size() >= g.owners.capacity())
    table_overflow();
  g.owners.push_back(Owner{m, g.cur, 1});
  ++g.fibers[static_cast<std::size_t>(g.cur)].held;
  return __real_pthread_mutex_lock(m);
}

int __wrap_pthread_mutex_trylock(pthread_mutex_t *m)
{
  if (outside_simulation())
    return __real_pthread_mutex_trylock(m);
  sched_point(K_LOCK, m);
  if (owner_of(m) == g.cur)
  {
    // recursive mutex re-locked by its owner (a plain mutex answers EBUSY by itself)
    int const r = __real_pthread_mutex_trylock(m);
    if (r == 0)
      for (Owner &o : g.owners)
        if (o.m == m)
          ++o.depth;
    return r;
  }
  if (owner_of(m) >= 0)
    return 16; // EBUSY
  if (g.owners.size() >= g.owners.capacity())
    table_overflow();
  g.owners.push_back(Owner{m, g.cur, 1});
  ++g.fibers[static_cast<std::size_t>(g.cur)].held;
  return __real_pthread_mutex_trylock(m);
}

int __wrap_pthread_mutex_unlock(pthread_mutex_t *m)
{
  if (outside_simulation())
    return __real_pthread_mutex_unlock(m);
  int const r = __real_pthread_mutex_unlock(m);
  for (std::size_t k = 0; k < g.owners.size(); ++k)
    if (g.owners[k].m == m)
    {
      if (g.owners[k].depth > 1)
      {
        --g.owners[k].depth;
        return r;
      }
      // (swap with the last entry: vector::erase would call memmove, which the race detector
      // intercepts even in this uninstrumented unit and attributes to the running fiber)
      g.owners[k] = g.owners.back();
      g.owners.pop_back();
      break;
    }
  if (g.fibers[static_cast<std::size_t>(g.cur)].held != 0)
    --g.fibers[static_cast<std::size_t>(g.cur)].held;
  for (Fiber &f : g.fibers)
    if (f.state == State::parked && f.waiting == m)
    {
      f.state = State::runnable;
      f.waiting = nullptr;
    }
  sched_point(K_UNLOCK, m);
  return r;
}

// ---- reader/writer locks (std::shared_mutex)
namespace
{
RwOwner &rw_entry(pthread_rwlock_t *l)
{
  for (RwOwner &r : g.rwowners)
    if (r.l == l)
      return r;
  if (g.rwowners.size() >= g.rwowners.capacity())
    table_overflow();
  g.rwowners.push_back(RwOwner{l, -1, {}, 0});
  return g.rwowners.back();
}
void rw_park(pthread_rwlock_t *l)
{
  Fiber &self = g.fibers[static_cast<std::size_t>(g.cur)];
  self.state = State::parked;
  self.waiting_rw = l;
  ++g.res.parked;
  must_switch();
}
}

int __wrap_pthread_rwlock_rdlock(pthread_rwlock_t *l)
{
  if (outside_simulation())
    return __real_pthread_rwlock_rdlock(l);
  sched_point(K_LOCK, l);
  while (rw_entry(l).writer >= 0)
    rw_park(l);
  RwOwner &r = rw_entry(l);
  if (r.nreaders >= 8)
    table_overflow();
  r.readers[r.nreaders++] = g.cur;
  ++g.fibers[static_cast<std::size_t>(g.cur)].held;
  return __real_pthread_rwlock_rdlock(l);
}

int __wrap_pthread_rwlock_tryrdlock(pthread_rwlock_t *l)
{
  if (outside_simulation())
    return __real_pthread_rwlock_tryrdlock(l);
  sched_point(K_LOCK, l);
  if (rw_entry(l).writer >= 0)
    return 16;
  RwOwner &r = rw_entry(l);
  if (r.nreaders < 8)
    r.readers[r.nreaders++] = g.cur;
  ++g.fibers[static_cast<std::size_t>(g.cur)].held;
  return __real_pthread_rwlock_tryrdlock(l);
}

int __wrap_pthread_rwlock_wrlock(pthread_rwlock_t *l)
{
  if (outside_simulation())
    return __real_pthread_rwlock_wrlock(l);
  sched_point(K_LOCK, l);
  while (rw_entry(l).writer >= 0 || rw_entry(l).nreaders != 0)
    rw_park(l);
  rw_entry(l).writer = g.cur;
  ++g.fibers[static_cast<std::size_t>(g.cur)].held;
  return __real_pthread_rwlock_wrlock(l);
}

int __wrap_pthread_rwlock_trywrlock(pthread_rwlock_t *l)
{
  if (outside_simulation())
    return __real_pthread_rwlock_trywrlock(l);
  sched_point(K_LOCK, l);
  if (rw_entry(l).writer >= 0 || rw_entry(l).nreaders != 0)
    return 16;
  rw_entry(l).writer = g.cur;
  ++g.fibers[static_cast<std::size_t>(g.cur)].held;
  return __real_pthread_rwlock_trywrlock(l);
}

int __wrap_pthread_rwlock_unlock(pthread_rwlock_t *l)
{
  if (outside_simulation())
    return __real_pthread_rwlock_unlock(l);
  int const res = __real_pthread_rwlock_unlock(l);
  RwOwner &r = rw_entry(l);
  if (r.writer == g.cur)
    r.writer = -1;
  else
    for (unsigned k = 0; k < r.nreaders; ++k)
      if (r.readers[k] == g.cur)
      {
        r.readers[k] = r.readers[--r.nreaders];
        break;
      }
  if (g.fibers[static_cast<std::size_t>(g.cur)].held != 0)
    --g.fibers[static_cast<std::size_t>(g.cur)].held;
  for (Fiber &f : g.fibers)
    if (f.state == State::parked && f.waiting_rw == l)
    {
      f.state = State::runnable;
      f.waiting_rw = nullptr;
    }
  sched_point(K_UNLOCK, l);
  return res;
}

// ThreadSanitizer's atomic entry points (every std::atomic access of instrumented code), all widths
typedef unsigned char a8;
typedef unsigned short a16;
typedef unsigned int a32;
typedef unsigned long a64;

#define SIM_ATOMIC_WRAPPERS(T, N) \
  T __real___tsan_atomic##N##_load(const volatile T *, int); \
  void __real___tsan_atomic##N##_store(volatile T *, T, int); \
  T __real___tsan_atomic##N##_exchange(volatile T *, T, int); \
  T __real___tsan_atomic##N##_fetch_add(volatile T *, T, int); \
  T __real___tsan_atomic##N##_fetch_sub(volatile T *, T, int); \
  T __real___tsan_atomic##N##_fetch_and(volatile T *, T, int); \
  T __real___tsan_atomic##N##_fetch_or(volatile T *, T, int); \
  T __real___tsan_atomic##N##_fetch_xor(volatile T *, T, int); \
  T __real___tsan_atomic##N##_fetch_nand(volatile T *, T, int); \
  int __real___tsan_atomic##N##_compare_exchange_strong(volatile T *, T *, T, int, int); \
  int __real___tsan_atomic##N##_compare_exchange_weak(volatile T *, T *, T, int, int); \
  T __wrap___tsan_atomic##N##_load(const volatile T *a, int mo) \
  { \
    sched_point(K_ATOMIC_LOAD, const_cast<T const *>(a)); \
    return __real___tsan_atomic##N##_load(a, mo); \
  } \
  void __wrap___tsan_atomic##N##_store(volatile T *a, T v, int mo) \
  { \
    sched_point(K_ATOMIC_STORE, const_cast<T const *>(a)); \
    __real___tsan_atomic##N##_store(a, v, mo); \
  } \
  T __wrap___tsan_atomic##N##_exchange(volatile T *a, T v, int mo) \
  { \
    sched_point(K_ATOMIC_RMW, const_cast<T const *>(a)); \
    return __real___tsan_atomic##N##_exchange(a, v, mo); \
  } \
  T __wrap___tsan_atomic##N##_fetch_add(volatile T *a, T v, int mo) \
  { \
    sched_point(K_ATOMIC_RMW, const_cast<T const *>(a)); \
    return __real___tsan_atomic##N##_fetch_add(a, v, mo); \
  } \
  T __wrap___tsan_atomic##N##_fetch_sub(volatile T *a, T v, int mo) \
  { \
    sched_point(K_ATOMIC_RMW, const_cast<T const *>(a)); \
    return __real___tsan_atomic##N##_fetch_sub(a, v, mo); \
  } \
  T __wrap___tsan_atomic##N##_fetch_and(volatile T *a, T v, int mo) \
  { \
    sched_point(K_ATOMIC_RMW, const_cast<T const *>(a)); \
    return __real___tsan_atomic##N##_fetch_and(a, v, mo); \
  } \
  T __wrap___tsan_atomic##N##_fetch_or(volatile T *a, T v, int mo) \
  { \
    sched_point(K_ATOMIC_RMW, const_cast<T const *>(a)); \
    return __real___tsan_atomic##N##_fetch_or(a, v, mo); \
  } \
  T __wrap___tsan_atomic##N##_fetch_xor(volatile T *a, T v, int mo) \
  { \
    sched_point(K_ATOMIC_RMW, const_cast<T const *>(a)); \
    return __real___tsan_atomic##N##_fetch_xor(a, v, mo); \
  } \
  T __wrap___tsan_atomic##N##_fetch_nand(volatile T *a, T v, int mo) \
  { \
    sched_point(K_ATOMIC_RMW, const_cast<T const *>(a)); \
    return __real___tsan_atomic##N##_fetch_nand(a, v, mo); \
  } \
  int __wrap___tsan_atomic##N##_compare_exchange_strong(volatile T *a, T *c, T v, int mo, int fmo) \
  { \
    sched_point(K_ATOMIC_RMW, const_cast<T const *>(a)); \
    return __real___tsan_atomic##N##_compare_exchange_strong(a, c, v, mo, fmo); \
  } \
  int __wrap___tsan_atomic##N##_compare_exchange_weak(volatile T *a, T *c, T v, int mo, int fmo) \
  { \
    sched_point(K_ATOMIC_RMW, const_cast<T const *>(a)); \
    return __real___tsan_atomic##N##_compare_exchange_weak(a, c, v, mo, fmo); \
  }

SIM_ATOMIC_WRAPPERS(a8, 8)
SIM_ATOMIC_WRAPPERS(a16, 16)
SIM_ATOMIC_WRAPPERS(a32, 32)
SIM_ATOMIC_WRAPPERS(a64, 64)
}
