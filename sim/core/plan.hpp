// Plans: the explicit, textual description of one simulated run.
// A fault is an annotation on the operation it hits; operands are interpreted modulo what exists,
// so every subsequence of a plan is a valid plan (this is what makes shrinking work).
#ifndef SIM_CORE_PLAN_HPP
#define SIM_CORE_PLAN_HPP
#include <cstdint>
#include <cstdlib>
#include <fstream>
#include <sstream>
#include <stdexcept>
#include <string>
#include <utility>
#include <vector>
#include "rng.hpp"

namespace sim
{
struct Op
{
  std::string name;
  std::vector<std::pair<std::string, std::string>> args;

  Op() = default;
  explicit Op(std::string n) : name(std::move(n)) {}

  Op &set(std::string const &k, long v)
  {
    for (auto &a : args)
      if (a.first == k)
      {
        a.second = std::to_string(v);
        return *this;
      }
    args.emplace_back(k, std::to_string(v));
    return *this;
  }
  Op &sets(std::string const &k, std::string const &v)
  {
    for (auto &a : args)
      if (a.first == k)
      {
        a.second = v;
        return *this;
      }
    args.emplace_back(k, v);
    return *this;
  }
  bool has(std::string const &k) const
  {
    for (auto const &a : args)
      if (a.first == k)
        return true;
    return false;
  }
  std::string gets(std::string const &k, std::string const &def = "") const
  {
    for (auto const &a : args)
      if (a.first == k)
        return a.second;
    return def;
  }
  long get(std::string const &k, long def = 0) const
  {
    for (auto const &a : args)
      if (a.first == k)
        return std::strtol(a.second.c_str(), nullptr, 10);
    return def;
  }
  // non-negative operand, to be reduced modulo n by the caller
  std::uint64_t getu(std::string const &k, std::uint64_t def = 0) const
  {
    for (auto const &a : args)
      if (a.first == k)
        return std::strtoull(a.second.c_str(), nullptr, 10);
    return def;
  }
  void erase(std::string const &k)
  {
    for (auto it = args.begin(); it != args.end(); ++it)
      if (it->first == k)
      {
        args.erase(it);
        return;
      }
  }
  // fault annotation "fault=kind:k" (several allowed as fault, fault2, ...)
  std::string str() const
  {
    std::string r = name;
    for (auto const &a : args)
      r += " " + a.first + "=" + a.second;
    return r;
  }
};

struct Plan
{
  std::string property;
  std::uint64_t seed = 0;
  std::uint64_t run = 0;
  Op cfg{"cfg"};
  // ops may carry a "t=<fiber>" argument in concurrent plans
  std::vector<Op> ops;
  std::vector<unsigned> sched;
  std::string expect; // "class=<cls>" in replay files written for violations

  std::string str() const
  {
    std::ostringstream o;
    o << "# fcppt-sim replay v1\n";
    o << "property " << property << " seed " << seed << " run " << run << "\n";
    o << "cfg";
    for (auto const &a : cfg.args)
      o << " " << a.first << "=" << a.second;
    o << "\n";
    for (auto const &op : ops)
      o << "op " << op.str() << "\n";
    if (!sched.empty())
    {
      o << "sched";
      for (unsigned s : sched)
        o << " " << s;
      o << "\n";
    }
    if (!expect.empty())
      o << "expect " << expect << "\n";
    return o.str();
  }

  // hash of everything that determines the execution (not provenance)
  std::uint64_t hash() const
  {
    std::string s = "cfg";
    for (auto const &a : cfg.args)
      s += " " + a.first + "=" + a.second;
    s += "\n";
    for (auto const &op : ops)
      s += op.str() + "\n";
    for (unsigned x : sched)
      s += std::to_string(x) + ",";
    return hash_str(s);
  }

  static Op parse_op(std::istringstream &ls)
  {
    Op op;
    ls >> op.name;
    std::string tok;
    while (ls >> tok)
    {
      auto eq = tok.find('=');
      if (eq == std::string::npos)
        op.args.emplace_back(tok, "");
      else
        op.args.emplace_back(tok.substr(0, eq), tok.substr(eq + 1));
    }
    return op;
  }

  static Plan parse(std::istream &in)
  {
    Plan p;
    std::string line;
    while (std::getline(in, line))
    {
      if (line.empty() || line[0] == '#')
        continue;
      std::istringstream ls(line);
      std::string kw;
      ls >> kw;
      if (kw == "property")
      {
        std::string k;
        ls >> p.property;
        while (ls >> k)
        {
          if (k == "seed")
            ls >> p.seed;
          else if (k == "run")
            ls >> p.run;
        }
      }
      else if (kw == "cfg")
      {
        std::string rest;
        std::getline(ls, rest);
        std::istringstream r2("cfg " + rest);
        p.cfg = parse_op(r2);
      }
      else if (kw == "op")
      {
        p.ops.push_back(parse_op(ls));
      }
      else if (kw == "sched")
      {
        unsigned x;
        while (ls >> x)
          p.sched.push_back(x);
      }
      else if (kw == "expect")
      {
        std::getline(ls, p.expect);
        while (!p.expect.empty() && p.expect[0] == ' ')
          p.expect.erase(0, 1);
      }
      else
      {
        throw std::runtime_error("plan: unknown line: " + line);
      }
    }
    return p;
  }

  static Plan load(std::string const &path)
  {
    std::ifstream f(path);
    if (!f)
      throw std::runtime_error("cannot open plan " + path);
    return parse(f);
  }
};
}
#endif
