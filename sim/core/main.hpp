// Generic entry point of every property binary: worker / replay / gen modes.
// The property supplies prop::id, prop::generate, prop::execute, prop::warmup.
#ifndef SIM_CORE_MAIN_HPP
#define SIM_CORE_MAIN_HPP
#include <chrono>
#include <csignal>
#include <cstdio>
#include <cstdlib>
#include <cstring>
#include <exception>
#include <iostream>
#include <map>
#include <set>
#include <string>
#include <typeinfo>
#include <pthread.h>
#include <sys/time.h>
#include <time.h>
#include <unistd.h>
#include <vector>
#include "ctx.hpp"
#include "plan.hpp"
#include "rng.hpp"

namespace prop
{
extern char const *const id;
void generate(sim::Rng &, sim::Plan &, bool thorough);
void execute(sim::Plan const &, sim::Ctx &);
void warmup();
}

extern "C" void __sanitizer_set_death_callback(void (*)()) __attribute__((weak));

namespace sim
{
namespace detail
{
__attribute__((noinline, no_sanitize("thread"))) inline long &current_run()
{
  static long r = -1;
  return r;
}
__attribute__((noinline, no_sanitize("thread"))) inline char const *&current_fault()
{
  static char const *f = "";
  return f;
}

// (not instrumented: it may run on the watchdog thread while the main thread is stuck, and a race
// report about the harness's own bookkeeping would be mistaken for one about the code under test)
__attribute__((noinline, no_sanitize("thread"))) inline void died()
{
  char buf[160];
  int const n = std::snprintf(buf, sizeof buf, "\nDIED %ld %s\n", current_run(), current_fault());
  if (n > 0)
  {
    ssize_t r = ::write(1, buf, static_cast<size_t>(n));
    (void)r;
  }
}

inline void on_signal(int sig)
{
  died();
  std::signal(sig, SIG_DFL);
  std::raise(sig);
}

inline void on_terminate()
{
  died();
  std::_Exit(78);
}

// per-run watchdog: a run that does not finish is a violation candidate of class `hang`
inline void on_alarm(int)
{
  died();
  std::_Exit(79);
}

// The watchdog has two limits, neither of which is ever an input of a verdict about a run that
// finishes: `seconds` of CPU time (a run that spins) and 6 x `seconds` of wall clock (a run that is
// blocked). CPU time is the sharp one: a heavily loaded machine can stall a process for seconds of
// wall clock, it cannot make a microsecond run consume ten seconds of CPU.
inline long process_cpu_seconds()
{
  timespec ts{};
  ::clock_gettime(CLOCK_PROCESS_CPUTIME_ID, &ts);
  return static_cast<long>(ts.tv_sec);
}
#if defined(__SANITIZE_THREAD__)
// ThreadSanitizer delivers an asynchronous signal only when the thread reaches an interceptor it
// regards as blocking; a fiber stuck inside a real pthread_mutex_lock never does, so timer signals
// alone cannot end a hung run there. A helper thread watches the deadlines instead. It touches
// nothing the simulation uses (no mutex, no atomic, no allocation).
inline long volatile &watchdog_wall_deadline()
{
  static long volatile d = 0;
  return d;
}
inline long volatile &watchdog_cpu_deadline()
{
  static long volatile d = 0;
  return d;
}
__attribute__((noinline, no_sanitize("thread"))) inline void watchdog_arm(unsigned seconds)
{
  watchdog_wall_deadline() = seconds == 0 ? 0 : static_cast<long>(::time(nullptr)) + 6 * static_cast<long>(seconds) + 1;
  watchdog_cpu_deadline() = seconds == 0 ? 0 : process_cpu_seconds() + static_cast<long>(seconds) + 1;
}
__attribute__((noinline, no_sanitize("thread"))) inline void *watchdog_main(void *)
{
  for (;;)
  {
    timespec ts{0, 250000000};
    ::nanosleep(&ts, nullptr);
    long const w = watchdog_wall_deadline();
    long const c = watchdog_cpu_deadline();
    if ((w != 0 && static_cast<long>(::time(nullptr)) > w) || (c != 0 && process_cpu_seconds() > c))
    {
      died();
      std::_Exit(79);
    }
  }
}
inline void watchdog_start()
{
  pthread_t t;
  if (::pthread_create(&t, nullptr, &watchdog_main, nullptr) == 0)
    ::pthread_detach(t);
}
#else
inline void watchdog_arm(unsigned) {}
inline void watchdog_start() {}
#endif
inline void arm(unsigned seconds)
{
  ::alarm(6 * seconds);
  itimerval it{};
  it.it_value.tv_sec = static_cast<time_t>(seconds);
  ::setitimer(ITIMER_PROF, &it, nullptr);
  watchdog_arm(seconds);
}

inline std::string json_escape(std::string const &s)
{
  std::string r;
  for (char c : s)
  {
    if (c == '"' || c == '\\')
    {
      r += '\\';
      r += c;
    }
    else if (c == '\n')
      r += "\\n";
    else if (c == '\t')
      r += "\\t";
    else if (static_cast<unsigned char>(c) < 0x20)
      r += '?';
    else
      r += c;
  }
  return r;
}

// the plan a property executes as warm-up (so that a crash during warm-up has a replayable plan)
inline std::string &warmup_text()
{
  static std::string t;
  return t;
}

inline bool &worker_mode()
{
  static bool r = false;
  return r;
}

// called by a property's warm-up BEFORE it executes its warm-up plan: if the process dies in the
// warm-up (DIED -1), the driver uses the announced plan as the violation candidate
inline void announce_warmup(Plan const &p)
{
  warmup_text() = p.str();
  if (worker_mode())
  {
    std::printf("WARMUP-BEGIN\n%sWARMUP-END\n", warmup_text().c_str());
    std::fflush(stdout);
  }
}

inline bool &replay_mode()
{
  static bool r = false;
  return r;
}

// a violation after which the process state cannot be trusted any more (abandoned fiber stacks
// after a deadlock): report it in the format of the current mode and leave
[[noreturn]] inline void fatal_violation(std::string const &cls, std::string const &detail)
{
  if (replay_mode())
  {
    std::printf("RESULT violation class=%s hash=%016llx detail=%s\n", cls.c_str(), 0ULL, json_escape(detail).c_str());
    std::fflush(stdout);
    std::_Exit(1);
  }
  std::printf("V %ld %s %s\n", current_run(), cls.c_str(), json_escape(detail).c_str());
  std::fflush(stdout);
  std::_Exit(0);
}

struct Outcome
{
  bool violation = false;
  std::string cls;
  std::string detail;
  std::uint64_t hash = 0;
};

inline Outcome run_plan_once(Plan const &p, Ctx &ctx);

// A `leak` verdict is confirmed by executing the same plan a second time in the same process: a
// one-time allocation of the code under test (a lazily initialised static, a cached locale) shows
// up in the first execution only and is not a leak; a real leak shows up in both.
inline Outcome run_plan(Plan const &p, Ctx &ctx)
{
  Outcome o = run_plan_once(p, ctx);
  if (o.violation && o.cls == "leak")
  {
    Ctx again;
    again.probes = ctx.probes;
    Outcome o2 = run_plan_once(p, again);
    if (!(o2.violation && o2.cls == "leak"))
    {
      ctx.probe("leak_not_confirmed_by_second_execution");
      if (o2.violation)
        return o2;
      o.violation = false;
      o.cls.clear();
      o.detail.clear();
    }
  }
  return o;
}

inline Outcome run_plan_once(Plan const &p, Ctx &ctx)
{
  Outcome o;
  try
  {
    prop::execute(p, ctx);
  }
  catch (Violation const &v)
  {
    o.violation = true;
    o.cls = v.cls;
    o.detail = v.detail;
  }
  catch (Fault const &f)
  {
    o.violation = true;
    o.cls = "escaped-sim-fault";
    o.detail = f.what;
  }
  catch (std::exception const &e)
  {
    o.violation = true;
    o.cls = "escaped-exception";
    o.detail = std::string(typeid(e).name()) + ": " + e.what();
  }
  catch (...)
  {
    o.violation = true;
    o.cls = "escaped-exception";
    o.detail = "unknown type";
  }
  fault::st().in_sut = false;
  o.hash = ctx.loghash;
  return o;
}

inline Plan make_plan(std::uint64_t seed, std::uint64_t run, bool thorough)
{
  Plan p;
  p.property = prop::id;
  p.seed = seed;
  p.run = run;
  Rng rng(mix3(seed, hash_str(prop::id), run));
  prop::generate(rng, p, thorough);
  return p;
}
}

inline int sim_main(int argc, char **argv)
{
  std::setvbuf(stdout, nullptr, _IOLBF, 0);
  std::string mode;
  std::string file;
  std::uint64_t seed = 1, runs = 1000, run_index = 0;
  unsigned w = 0, n = 1;
  double budget = 1e9;
  bool hashes = false, trace = false, thorough = false;
  unsigned enum_every = 0; // enumerate single faults for every k-th fault-free plan
  unsigned distinct_sample = 1;
  std::uint64_t hashes_below = 0;
  bool announce = false; // print the index of every run before it starts (used to locate a death
                         // that the sanitizer's death callback did not report)
  unsigned run_timeout = 10; // seconds of wall clock per run (watchdog only, never a verdict input)
  for (int i = 1; i < argc; ++i)
  {
    std::string a = argv[i];
    auto next = [&]() -> std::string { return i + 1 < argc ? argv[++i] : ""; };
    if (a == "--worker")
    {
      mode = "worker";
      w = static_cast<unsigned>(std::stoul(next()));
      n = static_cast<unsigned>(std::stoul(next()));
    }
    else if (a == "--replay")
    {
      mode = "replay";
      file = next();
    }
    else if (a == "--gen")
      mode = "gen";
    else if (a == "--seed")
      seed = std::stoull(next());
    else if (a == "--runs")
      runs = std::stoull(next());
    else if (a == "--run")
      run_index = std::stoull(next());
    else if (a == "--budget")
      budget = std::stod(next());
    else if (a == "--hashes")
      hashes = true;
    else if (a == "--announce")
      announce = true;
    else if (a == "--hashes-below")
      hashes_below = std::stoull(next());
    else if (a == "--trace")
      trace = true;
    else if (a == "--thorough")
      thorough = true;
    else if (a == "--enum-every")
      enum_every = static_cast<unsigned>(std::stoul(next()));
    else if (a == "--distinct-sample")
      distinct_sample = static_cast<unsigned>(std::stoul(next()));
    else
    {
      std::fprintf(stderr, "unknown argument %s\n", a.c_str());
      return 2;
    }
  }
  if (__sanitizer_set_death_callback != nullptr)
    __sanitizer_set_death_callback(&detail::died);
  std::signal(SIGSEGV, &detail::on_signal);
  std::signal(SIGABRT, &detail::on_signal);
  std::signal(SIGFPE, &detail::on_signal);
  std::signal(SIGBUS, &detail::on_signal);
  std::signal(SIGILL, &detail::on_signal);
  std::set_terminate(&detail::on_terminate);
  std::signal(SIGALRM, &detail::on_alarm);
  std::signal(SIGPROF, &detail::on_alarm);
  detail::watchdog_start();

  if (mode == "gen")
  {
    Plan p = detail::make_plan(seed, run_index, thorough);
    std::fputs(p.str().c_str(), stdout);
    return 0;
  }
  detail::worker_mode() = mode == "worker";
  // the warm-up runs under the watchdog too (a hang there is reported with the announced plan)
  detail::arm(run_timeout);
  prop::warmup();
  detail::arm(0);
  if (mode == "replay")
  {
    Plan p;
    try
    {
      p = Plan::load(file);
    }
    catch (std::exception const &e)
    {
      std::fprintf(stderr, "%s\n", e.what());
      return 2;
    }
    detail::current_run() = static_cast<long>(p.run);
    detail::replay_mode() = true;
    std::map<std::string, std::uint64_t> probes;
    Ctx ctx;
    ctx.trace = trace;
    ctx.probes = &probes;
    detail::arm(run_timeout);
    detail::Outcome o = detail::run_plan(p, ctx);
    detail::arm(0);
    if (!ctx.sched_out.empty())
    {
      std::string sl = "SCHED";
      for (unsigned c : ctx.sched_out)
        sl += " " + std::to_string(c);
      std::puts(sl.c_str());
    }
    if (o.violation)
    {
      std::printf(
          "RESULT violation class=%s hash=%016llx detail=%s\n",
          o.cls.c_str(),
          static_cast<unsigned long long>(o.hash),
          detail::json_escape(o.detail).c_str());
      return 1;
    }
    std::printf("RESULT ok hash=%016llx\n", static_cast<unsigned long long>(o.hash));
    return 0;
  }
  if (mode != "worker")
  {
    std::fprintf(stderr, "usage: --worker W N | --replay FILE | --gen\n");
    return 2;
  }

  using clock = std::chrono::steady_clock; // only used to stop starting new runs; never a verdict
  auto const t0 = clock::now();
  std::map<std::string, std::uint64_t> probes;
  std::set<std::uint64_t> distinct;
  std::set<std::uint64_t> interleavings;
  std::set<std::uint64_t> model_states; // distinct model states reached (capped)
  std::uint64_t executed = 0, nontrivial = 0, steps = 0, events = 0, enum_runs = 0, enum_plans = 0;
  unsigned violations = 0;
  std::vector<std::string> samples;
  std::uint64_t next_enum = 0;
  for (std::uint64_t i = w; i < runs; i += n)
  {
    if ((executed & 63U) == 0 &&
        std::chrono::duration<double>(clock::now() - t0).count() > budget)
      break;
    detail::current_run() = static_cast<long>(i);
    detail::current_fault() = "";
    if (announce)
    {
      std::printf("R %llu\n", static_cast<unsigned long long>(i));
      std::fflush(stdout);
    }
    Plan p = detail::make_plan(seed, i, thorough);
    Ctx ctx;
    ctx.probes = &probes;
    detail::arm(run_timeout);
    detail::Outcome o = detail::run_plan(p, ctx);
    ++executed;
    steps += ctx.steps;
    events += ctx.events;
    if (ctx.interleaving != 0)
      interleavings.insert(ctx.interleaving);
    if (model_states.size() < 3000000)
      model_states.insert(ctx.states.begin(), ctx.states.end());
    if (hashes || i < hashes_below)
      std::printf("H %llu %016llx\n", static_cast<unsigned long long>(i),
                  static_cast<unsigned long long>(o.hash));
    if (ctx.nontrivial)
    {
      std::uint64_t const h = p.hash();
      if (h % distinct_sample == 0)
        distinct.insert(h);
      ++nontrivial;
      if (samples.size() < 2 && i >= n)
        samples.push_back(p.str());
    }
    if (o.violation)
    {
      std::printf("V %llu %s %s\n", static_cast<unsigned long long>(i), o.cls.c_str(),
                  detail::json_escape(o.detail).c_str());
      if (++violations >= 3)
        break;
      continue;
    }
    // single-fault enumeration ("crash at every point" of a sampled fault-free history)
    if (enum_every != 0 && !p.cfg.has("faulty") && ctx.nontrivial)
    {
      if (next_enum == 0)
      {
        next_enum = enum_every;
        ++enum_plans;
        static char faultbuf[96];
        for (std::size_t j = 0; j < ctx.op_sites.size() && j < p.ops.size(); ++j)
        {
          for (int k = 0; k < fault::KINDS; ++k)
          {
            long const sites = ctx.op_sites[j][static_cast<unsigned>(k)];
            for (long s = 1; s <= sites && s <= 12; ++s)
            {
              Plan q = p;
              q.cfg.set("faulty", 1);
              q.ops[j].sets("fault", std::string(fault::name(k)) + ":" + std::to_string(s));
              std::snprintf(faultbuf, sizeof faultbuf, "enum op=%zu fault=%s:%ld", j,
                            fault::name(k), s);
              detail::current_fault() = faultbuf;
              Ctx c2;
              c2.probes = &probes;
              detail::arm(run_timeout);
              detail::Outcome o2 = detail::run_plan(q, c2);
              ++enum_runs;
              steps += c2.steps;
              if (o2.violation)
              {
                std::printf("VE %llu %s %s\n", static_cast<unsigned long long>(i), faultbuf,
                            o2.cls.c_str());
                std::printf("PLAN-BEGIN\n%sPLAN-END\n", q.str().c_str());
                ++violations;
                j = p.ops.size();
                k = fault::KINDS;
                break;
              }
            }
          }
        }
        detail::current_fault() = "";
        if (violations >= 3)
          break;
      }
      else
        --next_enum;
    }
  }
  detail::arm(0);
  detail::current_run() = -1;
  double const wall = std::chrono::duration<double>(clock::now() - t0).count();
  // statistics line (JSON)
  std::string s = "S {";
  s += "\"executed\":" + std::to_string(executed);
  s += ",\"nontrivial\":" + std::to_string(nontrivial);
  s += ",\"distinct_sampled\":" + std::to_string(distinct.size());
  s += ",\"distinct_sample_mod\":" + std::to_string(distinct_sample);
  s += ",\"steps\":" + std::to_string(steps);
  s += ",\"distinct_interleavings\":" + std::to_string(interleavings.size());
  s += ",\"distinct_states\":" + std::to_string(model_states.size());
  s += ",\"events\":" + std::to_string(events);
  s += ",\"enum_plans\":" + std::to_string(enum_plans);
  s += ",\"enum_runs\":" + std::to_string(enum_runs);
  s += ",\"violations\":" + std::to_string(violations);
  s += ",\"wall\":" + std::to_string(wall);
  s += ",\"faults\":{";
  for (int k = 0; k < fault::KINDS; ++k)
  {
    if (k != 0)
      s += ",";
    s += std::string("\"") + fault::name(k) + "\":{\"sites\":" +
         std::to_string(fault::st().sites[k]) +
         ",\"configured\":" + std::to_string(fault::st().configured[k]) +
         ",\"fired\":" + std::to_string(fault::st().fired_total[k]) + "}";
  }
  s += "},\"probes\":{";
  bool first = true;
  for (auto const &pr : probes)
  {
    if (!first)
      s += ",";
    first = false;
    s += "\"" + pr.first + "\":" + std::to_string(pr.second);
  }
  s += "},\"samples\":[";
  for (std::size_t k = 0; k < samples.size(); ++k)
  {
    if (k != 0)
      s += ",";
    s += "\"" + detail::json_escape(samples[k]) + "\"";
  }
  s += "]";
  if (distinct_sample == 1 || true)
  {
    // distinct hashes are exported so the driver can de-duplicate across workers
    s += ",\"distinct_hashes\":[";
    bool f2 = true;
    for (auto h : distinct)
    {
      if (!f2)
        s += ",";
      f2 = false;
      s += std::to_string(h);
    }
    s += "]";
  }
  s += "}";
  std::puts(s.c_str());
  return 0;
}
}

#endif
