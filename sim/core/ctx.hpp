// Per-run context: event log (hashed, optionally printed), probes, fault controller, violations.
#ifndef SIM_CORE_CTX_HPP
#define SIM_CORE_CTX_HPP
#include <array>
#include <cstdint>
#include <cstdio>
#include <map>
#include <string>
#include <utility>
#include <vector>
#include "plan.hpp"

namespace sim
{
struct Violation
{
  std::string cls;
  std::string detail;
};

// thrown by seams on the simulator's order (never derives from std::exception on purpose: code
// under test that swallows std::exception must not swallow the simulator's fault by accident)
struct Fault
{
  char const *what;
};

namespace fault
{
enum Kind
{
  alloc,
  copy,
  underflow,
  seek,
  accept,
  reader,
  facet,
  err_no,
  cb,
  sync,
  KINDS
};

inline char const *name(int k)
{
  static char const *const n[KINDS] = {
      "alloc", "copy", "underflow", "seek", "accept", "reader", "facet", "errno", "cb", "sync"};
  return n[k];
}

struct State
{
  bool in_sut = false; // true only while code under test runs
  bool alloc_off = false; // harness switch: allocations are neither fault sites nor tagged (a
                          // property that injects allocation failures into some scenarios only)
  long count[KINDS] = {};
  long target[KINDS] = {};
  long param[KINDS] = {}; // optional second number of the annotation (kind:k:param)
  bool fired[KINDS] = {};
  // totals for the whole run / worker
  std::uint64_t sites[KINDS] = {};
  std::uint64_t configured[KINDS] = {};
  std::uint64_t fired_total[KINDS] = {};
};

inline State &st()
{
  static State s;
  return s;
}

// called by a seam at each site where the fault kind could strike
inline bool hit(Kind k)
{
  State &s = st();
  if (!s.in_sut)
    return false;
  ++s.count[k];
  ++s.sites[k];
  if (s.target[k] != 0 && s.count[k] == s.target[k])
  {
    s.fired[k] = true;
    ++s.fired_total[k];
    return true;
  }
  return false;
}

inline int kind_of(std::string const &n)
{
  for (int k = 0; k < KINDS; ++k)
    if (n == name(k))
      return k;
  return -1;
}

// arm the faults annotated on op ("fault=alloc:2", "fault2=copy:1")
inline void begin_op(Op const &op)
{
  State &s = st();
  for (int k = 0; k < KINDS; ++k)
  {
    s.count[k] = 0;
    s.target[k] = 0;
    s.param[k] = 0;
    s.fired[k] = false;
  }
  for (auto const &a : op.args)
  {
    if (a.first.compare(0, 5, "fault") != 0)
      continue;
    auto c = a.second.find(':');
    if (c == std::string::npos)
      continue;
    int const k = kind_of(a.second.substr(0, c));
    if (k < 0)
      continue;
    char *end = nullptr;
    long const n = std::strtol(a.second.c_str() + c + 1, &end, 10);
    if (n <= 0)
      continue;
    s.target[k] = n;
    if (end != nullptr && *end == ':')
      s.param[k] = std::strtol(end + 1, nullptr, 10);
    ++s.configured[k];
  }
}

inline bool any_fired()
{
  State &s = st();
  for (int k = 0; k < KINDS; ++k)
    if (s.fired[k])
      return true;
  return false;
}

inline bool fired(Kind k) { return st().fired[k]; }
inline long count(Kind k) { return st().count[k]; }

struct Sut
{
  bool prev;
  Sut() : prev(st().in_sut) { st().in_sut = true; }
  ~Sut() { st().in_sut = prev; }
  Sut(Sut const &) = delete;
  Sut &operator=(Sut const &) = delete;
};
// harness code running inside a SUT call (callbacks) that must not be hit by faults
struct Harness
{
  bool prev;
  Harness() : prev(st().in_sut) { st().in_sut = false; }
  ~Harness() { st().in_sut = prev; }
  Harness(Harness const &) = delete;
  Harness &operator=(Harness const &) = delete;
};
}

struct Ctx
{
  bool trace = false;
  std::uint64_t loghash = 1469598103934665603ULL;
  std::uint64_t events = 0;
  std::uint64_t steps = 0; // logical steps executed (ops / scheduler steps)
  std::map<std::string, std::uint64_t> *probes = nullptr;
  // per op: number of fault sites seen per kind (for single-fault enumeration)
  std::vector<std::array<long, fault::KINDS>> op_sites;
  bool nontrivial = false;
  std::vector<std::uint64_t> states; // hashes of the model states this run passed through
  void state(std::string const &repr)
  {
    std::uint64_t h = 1469598103934665603ULL;
    for (unsigned char c : repr)
    {
      h ^= c;
      h *= 1099511628211ULL;
    }
    states.push_back(h);
  }
  std::vector<unsigned> sched_out; // scheduler choices actually made (concurrent engine)
  std::uint64_t interleaving = 0;  // hash of the sequence of synchronisation events

  void ev(std::string const &s)
  {
    for (unsigned char c : s)
    {
      loghash ^= c;
      loghash *= 1099511628211ULL;
    }
    loghash ^= 0xff;
    loghash *= 1099511628211ULL;
    ++events;
    if (trace)
      std::printf("  | %s\n", s.c_str());
  }
  void probe(std::string const &name, std::uint64_t n = 1)
  {
    if (probes != nullptr)
      (*probes)[name] += n;
  }
  void probe(char const *name, std::uint64_t n = 1)
  {
    if (probes != nullptr)
      (*probes)[name] += n;
  }
  void end_op()
  {
    std::array<long, fault::KINDS> a{};
    for (int k = 0; k < fault::KINDS; ++k)
      a[static_cast<unsigned>(k)] = fault::st().count[k];
    op_sites.push_back(a);
    ++steps;
  }
};

[[noreturn]] inline void violate(std::string cls, std::string detail)
{
  throw Violation{std::move(cls), std::move(detail)};
}
}

#define SIM_CHECK(cond, cls, detail) \
  do \
  { \
    if (!(cond)) \
      ::sim::violate((cls), std::string(detail) + " [" #cond "]"); \
  } while (false)

#endif
