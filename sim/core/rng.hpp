// Deterministic PRNG for the simulator: splitmix64. One VERIF_SEED decides everything.
#ifndef SIM_CORE_RNG_HPP
#define SIM_CORE_RNG_HPP
#include <cstdint>
#include <string>

namespace sim
{
inline std::uint64_t splitmix(std::uint64_t &s)
{
  std::uint64_t z = (s += 0x9e3779b97f4a7c15ULL);
  z = (z ^ (z >> 30)) * 0xbf58476d1ce4e5b9ULL;
  z = (z ^ (z >> 27)) * 0x94d049bb133111ebULL;
  return z ^ (z >> 31);
}

inline std::uint64_t mix3(std::uint64_t a, std::uint64_t b, std::uint64_t c)
{
  std::uint64_t s = a * 0x9e3779b97f4a7c15ULL + 0x632be59bd9b4e019ULL;
  s ^= splitmix(s) + b;
  s ^= splitmix(s) + c * 0xd6e8feb86659fd93ULL;
  return splitmix(s);
}

inline std::uint64_t hash_str(std::string const &s)
{
  std::uint64_t h = 1469598103934665603ULL;
  for (unsigned char c : s)
  {
    h ^= c;
    h *= 1099511628211ULL;
  }
  return h;
}

class Rng
{
public:
  explicit Rng(std::uint64_t seed) : s_(seed) {}
  std::uint64_t next() { return splitmix(s_); }
  // uniform in [0, n), n > 0
  std::uint64_t below(std::uint64_t n) { return n == 0 ? 0 : next() % n; }
  // uniform in [lo, hi]
  long range(long lo, long hi)
  {
    return lo + static_cast<long>(below(static_cast<std::uint64_t>(hi - lo + 1)));
  }
  bool chance(unsigned num, unsigned den) { return below(den) < num; }
  template <typename C>
  auto const &pick(C const &c)
  {
    return c[below(c.size())];
  }

private:
  std::uint64_t s_;
};
}
#endif
