"""Planted defects for tools/sensitivity.py (DESIGN.md appendix A): small edits that still compile.
Each one is applied to a scratch copy of the repository, never to /repo. `fault` marks defects
that are only observable in a fault-injecting or multi-fiber configuration."""

RV = "libs/core/include/fcppt/container/raw_vector/object_impl.hpp"
BUF = "libs/core/include/fcppt/container/buffer/object_impl.hpp"
TREE = "libs/core/include/fcppt/container/tree/object_impl.hpp"
IBASE = "libs/core/include/fcppt/intrusive/base_impl.hpp"
ILIST = "libs/core/include/fcppt/intrusive/list_impl.hpp"
STREAM = "libs/parse/include/fcppt/parse/detail/stream_impl.hpp"
CTX = "libs/log/src/log/context.cpp"
CODECVT = "libs/core/impl/include/fcppt/impl/codecvt.hpp"

MUTANTS = [
    # ------------------------------------------------------------------ C01
    {"id": "C01-a", "prop": "C01", "fault": True, "expect": "undocumented-exception under underflow/seek faults",
     "file": "libs/parse/include/fcppt/parse/phrase_parse.hpp",
     "old": """catch (fcppt::parse::detail::exception<Ch> const &_error)
{
""",
     "new": """catch (fcppt::parse::detail::exception<Ch> const &_error)
{
  if (_error.what().size() > 14U)
  {
    throw;
  }
"""},
    {"id": "C01-b", "prop": "C01", "fault": False, "expect": "hang (loop without progress)",
     "file": CODECVT,
     "old": """        if (buf.write_size() >= min_size)
        {
          return optional_return_type{};
        }
""",
     "new": ""},
    {"id": "C01-c", "prop": "C01", "fault": True, "expect": "glibcxx assertion / ubsan under reader:none",
     "file": "libs/core/include/fcppt/container/buffer/append_from_opt.hpp",
     "old": """  return fcppt::optional::map(
      _function(_buffer.write_data(), _size),
      [&_buffer](typename fcppt::container::buffer::object<T, A>::size_type const _new_size) {
        _buffer.written(_new_size);

        return std::move(_buffer);
      });""",
     "new": """  auto const result(_function(_buffer.write_data(), _size));

  _buffer.written(result.get_unsafe());

  return fcppt::optional::map(
      result,
      [&_buffer](typename fcppt::container::buffer::object<T, A>::size_type const) {
        return std::move(_buffer);
      });"""},
    {"id": "C01-d", "prop": "C01", "fault": False, "expect": "asan:stack-buffer-overflow",
     "file": "libs/core/include/fcppt/io/read.hpp",
     "old": "fcppt::cast::size<std::streamsize>(fcppt::cast::to_signed(sizeof(Type))))",
     "new": "fcppt::cast::size<std::streamsize>(fcppt::cast::to_signed(sizeof(Type) + 1U)))"},
    {"id": "C01-e", "prop": "C01", "fault": True, "expect": "undocumented-exception under errno faults",
     "file": "libs/filesystem/src/filesystem/create_directory.cpp",
     "old": "  std::filesystem::create_directory(_path, code);",
     "new": "  if (!std::filesystem::exists(_path))\n  {\n    std::filesystem::create_directory(_path, code);\n  }"},
    # ------------------------------------------------------------------ C07
    {"id": "C07-a", "prop": "C07", "fault": False, "expect": "contents",
     "file": RV,
     "old": """          // NOLINTNEXTLINE(fuchsia-default-arguments-calls)
          std::next(this->data_end()));
    }

    *_position = value_copy;""",
     "new": """          this->data_end());
    }

    *_position = value_copy;"""},
    {"id": "C07-b", "prop": "C07", "fault": True, "expect": "asan / ledger with alloc faults",
     "file": RV,
     "old": """  size_type const old_size(this->size());

  pointer const new_memory(this->impl_.alloc_.allocate(_new_cap));

  if (!this->empty())
  {
    std::uninitialized_copy(this->begin(), this->end(), new_memory);
  }

  this->deallocate();
""",
     "new": """  size_type const old_size(this->size());

  fcppt::container::raw_vector::object<T, A> old_contents{this->get_allocator()};

  old_contents.swap(*this);

  pointer const new_memory(this->impl_.alloc_.allocate(_new_cap));

  if (!old_contents.empty())
  {
    std::uninitialized_copy(old_contents.begin(), old_contents.end(), new_memory);
  }
"""},
    {"id": "C07-c", "prop": "C07", "fault": False, "expect": "asan:heap-buffer-overflow",
     "file": RV,
     "old": "  return std::max(_new_size, this->capacity() * 2U);",
     "new": "  return std::max(_new_size - 1U, this->capacity() * 2U);"},
    {"id": "C07-d", "prop": "C07", "fault": False, "expect": "size/contents",
     "file": RV,
     "old": """  std::uninitialized_copy(_position + 1U, this->end(), _position);

  --this->impl_.last_;""",
     "new": """  std::uninitialized_copy(_position + 1U, this->end(), _position);

  if (_position + 1U != this->end())
  {
    --this->impl_.last_;
  }"""},
    {"id": "C07-e", "prop": "C07", "fault": False, "expect": "buffer-contents after growth",
     "file": BUF,
     "old": "  std::uninitialized_copy(this->read_data(), this->read_data_end(), new_impl.first_);\n",
     "new": "  std::uninitialized_copy(this->read_data(), this->read_data_end() - (this->read_size() > 8U ? 1 : 0), new_impl.first_);\n"},
    {"id": "C07-f", "prop": "C07", "fault": False, "expect": "to_raw_vector size",
     "file": BUF,
     "old": "this->get_allocator(), this->impl_.first_, this->impl_.read_end_, this->impl_.cap_};",
     "new": "this->get_allocator(), this->impl_.first_, this->impl_.write_end_, this->impl_.cap_};"},
    {"id": "C07-g", "prop": "C07", "fault": True, "expect": "with alloc:1: use after free / ledger",
     "file": BUF,
     "old": """  impl new_impl{
      this->impl_.alloc_,""",
     "new": """  if (this->read_size() == 0U)
  {
    this->impl_.deallocate();

    this->release_internal();
  }

  impl new_impl{
      this->impl_.alloc_,"""},
    {"id": "C07-h", "prop": "C07", "fault": False, "expect": "ledger:capacity-mismatch after swap",
     "file": RV,
     "old": """  std::swap(this->impl_.cap_, _other.impl_.cap_);""",
     "new": """  if (this->size() != _other.size())
  {
    std::swap(this->impl_.cap_, _other.impl_.cap_);
  }"""},
    # ------------------------------------------------------------------ C09
    {"id": "C09-a", "prop": "C09", "fault": False, "expect": "links",
     "file": TREE,
     "old": """  child_list result(fcppt::move_clear(_children));

  for (auto &child : result)
  {
    child.parent_ = this;
  }
""",
     "new": """  child_list result(fcppt::move_clear(_children));

  if (this->parent_ == nullptr)
  {
    for (auto &child : result)
    {
      child.parent_ = this;
    }
  }
"""},
    {"id": "C09-b", "prop": "C09", "fault": False, "expect": "links",
     "file": TREE,
     "old": """  child_list result(_children);

  for (auto &child : result)
  {
    child.parent_ = this;
  }
""",
     "new": """  child_list result(_children);

  if (result.size() != 1U)
  {
    for (auto &child : result)
    {
      child.parent_ = this;
    }
  }
"""},
    {"id": "C09-c", "prop": "C09", "fault": False, "expect": "links",
     "file": TREE,
     "old": "  this->children_.insert(_it, std::move(_tree))->parent_ = this;",
     "new": "  iterator const pos{this->children_.insert(_it, std::move(_tree))};\n\n  if (_it == this->children_.end())\n  {\n    pos->parent_ = this;\n  }"},
    {"id": "C09-d", "prop": "C09", "fault": False, "expect": "shape (wrong insert position)",
     "file": TREE,
     "old": """  this->insert(_it, object(_value));""",
     "new": """  this->insert(_it == this->children_.end() ? _it : std::next(_it), object(_value));"""},
    {"id": "C09-e", "prop": "C09", "fault": True, "expect": "state/links only with alloc/copy faults",
     "file": TREE,
     "old": """  this->value_ = _other.value_;

  this->children_ = this->copy_children(_other.children_);""",
     "new": """  this->children_.clear();

  for (object const &child : _other.children_)
  {
    this->children_.push_back(child);
  }

  for (object &child : this->children_)
  {
    child.parent_ = this;
  }

  this->value_ = _other.value_;"""},
    {"id": "C09-f", "prop": "C09", "fault": False, "expect": "links after swap of an inner node",
     "file": TREE,
     "old": """  for (auto &child : _other.children_)
  {
    child.parent_ = &_other;
  }
}""",
     "new": """  for (auto &child : _other.children_)
  {
    child.parent_ = this;
  }
}"""},
    # ------------------------------------------------------------------ C11
    {"id": "C11-a", "prop": "C11", "fault": False, "expect": "membership / asan",
     "file": IBASE,
     "old": """  next_->prev_ = prev_;

  prev_->next_ = next_;

  // If _other is not linked""",
     "new": """  // If _other is not linked"""},
    {"id": "C11-b", "prop": "C11", "fault": False, "expect": "asan / ring",
     "file": ILIST,
     "old": """  if (!_other.empty())
  {
    this->head_ = std::move(_other.head_);
  }
}""",
     "new": """  this->head_ = std::move(_other.head_);

  _other.head_.next_ = &this->head_;
}"""},
    {"id": "C11-c", "prop": "C11", "fault": False, "expect": "membership-in-unregister",
     "file": "libs/core/include/fcppt/signal/unregister/detail/concrete_connection_impl.hpp",
     "old": """  this->unlink();

  try""",
     "new": """  try"""},
    {"id": "C11-d", "prop": "C11", "fault": False, "expect": "fold-result",
     "file": "libs/core/include/fcppt/signal/object_impl.hpp",
     "old": "      std::move(_initial.get()),",
     "new": "      base::connections().empty() ? std::move(_initial.get()) : result_type{},"},
    {"id": "C11-e", "prop": "C11", "fault": False, "expect": "membership (list move assignment from empty)",
     "file": ILIST,
     "old": """  if (_other.empty())
  {
    this->head_.unlink();
  }""",
     "new": """  if (_other.empty())
  {
    this->head_.next_ = &this->head_;

    this->head_.prev_ = &this->head_;
  }"""},
    # ------------------------------------------------------------------ C12
    {"id": "C12-a", "prop": "C12", "fault": False, "expect": "location after rewind",
     "file": STREAM,
     "old": "[this](fcppt::parse::location const &_location) { this->location_ = _location; });",
     "new": "[this](fcppt::parse::location const &_location) { if (_location.line() <= this->location_.line()) { this->location_ = _location; } });"},
    {"id": "C12-b", "prop": "C12", "fault": False, "expect": "location",
     "file": STREAM,
     "old": "      this->location_.column() = fcppt::parse::column{1U};",
     "new": "      this->location_.column() = fcppt::parse::column{0U};"},
    {"id": "C12-c", "prop": "C12", "fault": False, "expect": "position at end of input",
     "file": STREAM,
     "old": """  if (std_stream.eof())
  {
    std_stream.clear(); // NOLINT(fuchsia-default-arguments-calls)
  }

  pos_type const pos{std_stream.tellg()};""",
     "new": """  pos_type const pos{std_stream.tellg()};"""},
    {"id": "C12-d", "prop": "C12", "fault": True, "expect": "character/success after read error",
     "file": "libs/parse/include/fcppt/parse/detail/check_bad.hpp",
     "old": "  if (_stream.bad())",
     "new": "  if (_stream.bad() && _stream.eof())"},
    {"id": "C12-e", "prop": "C12", "fault": False, "expect": "character at end",
     "file": "libs/core/include/fcppt/io/get.hpp",
     "old": "  return result == Traits::eof() ? result_type{}",
     "new": "  return (result == Traits::eof() && !_stream.eof()) ? result_type{}"},
    # ------------------------------------------------------------------ C15
    {"id": "C15-a", "prop": "C15", "fault": True, "expect": "torn-value-accepted under truncation/read errors",
     "file": "libs/core/include/fcppt/io/read.hpp",
     "old": """  if (!_stream.read(
          bytes.data(), fcppt::cast::size<std::streamsize>(fcppt::cast::to_signed(sizeof(Type)))))
  {
    return result_type();
  }""",
     "new": """  _stream.read(
      bytes.data(), fcppt::cast::size<std::streamsize>(fcppt::cast::to_signed(sizeof(Type))));

  if (_stream.gcount() == 0)
  {
    return result_type();
  }"""},
    {"id": "C15-b", "prop": "C15", "fault": False, "expect": "byte-layout",
     # (io::write no longer goes through endianness::convert since fix a10f1ac: the same defect -
     # the byte order on disk is the wrong way round - is planted where the decision is made now)
     "file": "libs/core/include/fcppt/io/write.hpp",
     "old": """  if (_format != std::endian::native)
  {
    std::reverse(bytes.begin(), bytes.end());
  }""",
     "new": """  if (_format == std::endian::native)
  {
    std::reverse(bytes.begin(), bytes.end());
  }"""},
    {"id": "C15-c", "prop": "C15", "fault": False, "expect": "byte-layout / roundtrip",
     "file": "libs/core/src/endianness/reverse_mem.cpp",
     "old": "fcppt::make_int_range_count(_len / 2)",
     "new": "fcppt::make_int_range_count((_len - 1U) / 2)"},
    {"id": "C15-d", "prop": "C15", "fault": True, "expect": "facet-error-ignored",
     "file": CODECVT,
     "old": """    case std::codecvt_base::error:
      return optional_return_type{};""",
     "new": """    case std::codecvt_base::error:
      return optional_return_type{return_type(buf.begin(), buf.end())};"""},
    {"id": "C15-e", "prop": "C15", "fault": True, "expect": "torn-value-accepted",
     "file": "libs/core/include/fcppt/math/detail/one_dimensional_input.hpp",
     "old": """  fcppt::io::expect(_stream, _stream.widen(')'));

  return _stream;""",
     "new": """  return _stream;"""},
    {"id": "C15-f", "prop": "C15", "fault": True, "expect": "unacknowledged-write-reported-good",
     "file": "libs/core/src/io/write_chars.cpp",
     "old": "  return _stream.good();",
     "new": "  return !_stream.bad() || _count == 0U;"},
    {"id": "C15-g", "prop": "C15", "fault": False, "expect": "silent-truncation (codecvt fix reverted)",
     "file": CODECVT,
     "old": """        if (buf.write_size() >= min_size)
        {
          return optional_return_type{};
        }

        buf.resize_write_area(min_size);

        continue;""",
     "new": """        return optional_return_type{return_type(buf.begin(), buf.end())};"""},
    # ------------------------------------------------------------------ C19
    {"id": "C19-a", "prop": "C19", "fault": True, "expect": "tsan:data-race / linearizability",
     "file": CTX,
     "old": """  impl::lock_guard const lock{this->impl_->mutex()};

  for (fcppt::log::detail::context_tree &node""",
     "new": """  impl::mutex_type other_mutex{};
  impl::lock_guard const lock{other_mutex};

  for (fcppt::log::detail::context_tree &node"""},
    {"id": "C19-b", "prop": "C19", "fault": True, "expect": "tsan:data-race",
     "file": CTX,
     "old": """  impl::lock_guard const lock{this->impl_->mutex()};

  return fcppt::algorithm::fold_break(""",
     "new": """  return fcppt::algorithm::fold_break("""},
    {"id": "C19-c", "prop": "C19", "fault": True, "expect": "tsan:data-race / audit:duplicate-node",
     "file": CTX,
     "old": """  impl::lock_guard const lock{this->impl_->mutex()};

  return fcppt::reference_to_const(fcppt::log::impl::find_or_create_child(""",
     "new": """  return fcppt::reference_to_const(fcppt::log::impl::find_or_create_child("""},
    {"id": "C19-d", "prop": "C19", "fault": True, "expect": "tsan:data-race / linearizability",
     "file": CTX,
     "old": """  impl::lock_guard const lock{this->impl_->mutex()};

  for (fcppt::log::detail::context_tree &node : fcppt::container::tree::make_pre_order(
           this->impl_->find_location_impl(_location, lock).get()))""",
     "new": """  fcppt::log::detail::context_tree &start{[this, &_location]() -> fcppt::log::detail::context_tree & {
    impl::lock_guard const lock{this->impl_->mutex()};
    return this->impl_->find_location_impl(_location, lock).get();
  }()};

  for (fcppt::log::detail::context_tree &node : fcppt::container::tree::make_pre_order(start))"""},
    {"id": "C19-e", "prop": "C19", "fault": False, "expect": "model (sequential)",
     "file": CTX,
     "old": """  for (fcppt::log::detail::context_tree &node : fcppt::container::tree::make_pre_order(
           this->impl_->find_location_impl(_location, lock).get()))
  {
    node.value().level(_level);
  }""",
     "new": """  fcppt::log::detail::context_tree &start{this->impl_->find_location_impl(_location, lock).get()};

  start.value().level(_level);

  for (fcppt::log::detail::context_tree &node : start)
  {
    node.value().level(_level);
  }"""},
    {"id": "C19-f", "prop": "C19", "fault": False, "expect": "model (sequential)",
     "file": "libs/log/impl/src/log/impl/find_or_create_child.cpp",
     "old": "fcppt::log::detail::context_tree_node{_name, _node.get().value().level()});",
     "new": "fcppt::log::detail::context_tree_node{_name, _node.get().parent().has_value() ? _node.get().parent().get_unsafe().get().value().level() : _node.get().value().level()});"},
    {"id": "C19-g", "prop": "C19", "fault": False, "expect": "model (sequential): 'no level' stored as fatal",
     "file": "libs/log/impl/src/log/impl/convert_level.cpp",
     "old": "          fcppt::enum_::size<fcppt::log::level>::value)),",
     "new": "          fcppt::enum_::size<fcppt::log::level>::value - 1U)),"},
    {"id": "C19-h", "prop": "C19", "fault": False, "expect": "enabled / emission",
     "file": "libs/log/src/log/object.cpp",
     "old": "        return _level >= _enabled_level;",
     "new": "        return _level > _enabled_level || _level == fcppt::log::level::fatal;"},
    {"id": "C19-i", "prop": "C19", "fault": False, "expect": "message-text",
     "file": "libs/log/impl/src/log/impl/tree_formatter.cpp",
     "old": """                   : fcppt::log::format::optional_function(fcppt::log::format::chain(
                         fcppt::log::format::optional_function(fcppt::log::format::prefix(
                             fcppt::log::format::prefix_string{name.get()})),
                         _state));""",
     "new": """                   : fcppt::log::format::optional_function(fcppt::log::format::chain(
                         _state,
                         fcppt::log::format::optional_function(fcppt::log::format::prefix(
                             fcppt::log::format::prefix_string{name.get()}))));"""},
    {"id": "C19-j", "prop": "C19", "fault": True, "expect": "deadlock / lock-not-released (needs an allocation failure inside the locked region)",
     "file": CTX,
     "old": """  impl::lock_guard const lock{this->impl_->mutex()};

  return fcppt::reference_to_const(fcppt::log::impl::find_or_create_child(
      fcppt::make_ref(
          // NOLINTNEXTLINE(cppcoreguidelines-pro-type-const-cast)
          const_cast<fcppt::log::detail::context_tree &>(_node.get())),
      _name));""",
     "new": """  this->impl_->mutex().lock();

  fcppt::reference<fcppt::log::detail::context_tree const> const result{
      fcppt::reference_to_const(fcppt::log::impl::find_or_create_child(
          fcppt::make_ref(
              // NOLINTNEXTLINE(cppcoreguidelines-pro-type-const-cast)
              const_cast<fcppt::log::detail::context_tree &>(_node.get())),
          _name))};

  this->impl_->mutex().unlock();

  return result;"""},
]
