"""Planted defects for tools/sensitivity.py: small edits that still compile. Each is applied to a
scratch copy of the repository, never to /repo."""

CTX = "libs/log/src/log/context.cpp"

MUTANTS = [
    {"id": "C19-a", "prop": "C19", "file": CTX, "expect": "tsan:data-race / linearizability",
     "old": """  impl::lock_guard const lock{this->impl_->mutex()};

  for (fcppt::log::detail::context_tree &node""",
     "new": """  impl::mutex_type other_mutex{};
  impl::lock_guard const lock{other_mutex};

  for (fcppt::log::detail::context_tree &node"""},
    {"id": "C19-b", "prop": "C19", "file": CTX, "expect": "tsan:data-race",
     "old": """  impl::lock_guard const lock{this->impl_->mutex()};

  return fcppt::algorithm::fold_break(""",
     "new": """  return fcppt::algorithm::fold_break("""},
]
