#!/usr/bin/env python3
"""Orchestrator of one property check: build, stored replays, seeded search over 16 workers,
determinism gate, minimisation, replay file, evidence.

usage: driver.py <ID> quick|thorough
       driver.py <ID> --replay <file> [--trace]
exit:  0 property held on everything explored; 1 VIOLATION printed; 2 infrastructure problem
"""
import json
import os
import re
import shutil
import subprocess
import sys
import time

VERIF = os.path.dirname(os.path.dirname(os.path.abspath(__file__)))
sys.path.insert(0, os.path.join(VERIF, "tools"))
import props  # noqa: E402

JOBS = int(os.environ.get("VERIF_JOBS", "16"))
BUILD = os.environ.get("VERIF_BUILD", os.path.join(VERIF, "build"))
# where replays and evidence are written (the sensitivity tool redirects them to a scratch dir)
OUT = os.environ.get("VERIF_OUT", VERIF)
REPLAY_TIMEOUT = 60
DET_RUNS = 400  # runs re-executed in a second process layout for the per-check determinism gate

SAN_ENV = {
    # (quarantine: 16 workers with blocks of many megabytes each would otherwise hold up to 256 MB
    #  of freed memory per process)
    "ASAN_OPTIONS": "exitcode=77:detect_leaks=0:abort_on_error=0:allocator_may_return_null=1:"
                    "detect_stack_use_after_return=0:symbolize=1:quarantine_size_mb=48",
    "UBSAN_OPTIONS": "print_stacktrace=0:halt_on_error=1:exitcode=76",
    "TSAN_OPTIONS": "suppress_equal_stacks=0:suppress_equal_addresses=0:halt_on_error=0:"
                    "report_signal_unsafe=0:exitcode=0:history_size=4:report_thread_leaks=0",
    "LC_ALL": "C",
}


TMPDIR = [None]


def env():
    e = dict(os.environ)
    e.update(SAN_ENV)
    if TMPDIR[0]:
        e["SIM_TMP"] = TMPDIR[0]
    return e


def log(*a):
    print(*a, flush=True)


def build(engine):
    r = subprocess.run([sys.executable, os.path.join(VERIF, "tools", "build.py"),
                        engine["flavour"], engine["bin"]],
                       stdout=subprocess.PIPE, stderr=subprocess.STDOUT, text=True)
    if r.returncode != 0:
        log(r.stdout)
        log("INFRA build failed for", engine["bin"])
        return None
    return r.stdout.strip().splitlines()[-1]


def classify(rc, out):
    """Outcome class of one replay process."""
    m = re.search(r"^RESULT (\w+)(?: class=(\S+))?(?: hash=(\w+))?(?: detail=(.*))?$", out, re.M)
    if m and m.group(1) == "ok" and rc == 0:
        return ("ok", m.group(3), "")
    if m and m.group(1) == "violation":
        return (m.group(2), m.group(3), m.group(4) or "")
    if rc == 79:
        return ("hang", None, "run exceeded the per-run watchdog")
    a = re.search(r"ERROR: AddressSanitizer: (?:attempting )?([\w-]+)", out)
    if a:
        return ("asan:" + a.group(1), None, a.group(0))
    u = re.search(r"runtime error: (.*)", out)
    if u:
        return ("ubsan", None, u.group(1)[:200])
    g = re.search(r"Assertion '.*' failed|assertion.*failed", out, re.I)
    if g:
        return ("glibcxx-assertion", None, g.group(0)[:200])
    t = re.search(r"ThreadSanitizer: ([\w -]+)", out)
    if t and rc != 0:
        return ("tsan:" + t.group(1).strip().replace(" ", "-"), None, t.group(0))
    if rc == 76:
        return ("ubsan", None, "undefined behaviour reported by UBSan")
    if rc == 78:
        return ("terminate", None, "std::terminate called")
    if rc == 79:
        return ("hang", None, "run exceeded the per-run watchdog")
    if rc == -9 or rc == "timeout":
        return ("hang", None, "timeout")
    if rc < 0:
        return ("signal:%d" % -rc, None, "")
    return ("exit:%s" % rc, None, out[-300:])


def replay(exe, path, trace=False, timeout=REPLAY_TIMEOUT):
    cmd = [exe, "--replay", path] + (["--trace"] if trace else [])
    try:
        r = subprocess.run(cmd, stdout=subprocess.PIPE, stderr=subprocess.STDOUT, text=True,
                           env=env(), timeout=timeout, errors="replace")
        return classify(r.returncode, r.stdout) + (r.stdout,)
    except subprocess.TimeoutExpired as e:
        out = e.stdout.decode(errors="replace") if isinstance(e.stdout, bytes) else (e.stdout or "")
        return ("hang", None, "timeout", out)


# ---------------------------------------------------------------- plan text manipulation
def parse_plan(text):
    head, ops, tail = [], [], []
    for line in text.splitlines():
        if line.startswith("op "):
            ops.append(line)
        elif line.startswith("sched") or line.startswith("expect"):
            tail.append(line)
        else:
            head.append(line)
    return head, ops, tail


def render(head, ops, tail):
    return "\n".join(head + ops + tail) + "\n"


class Shrinker:
    def __init__(self, exe, cls, tmpdir, budget_s=90, max_runs=600):
        self.exe, self.cls, self.tmp = exe, cls, tmpdir
        self.deadline = time.time() + budget_s
        self.max_runs = max_runs
        self.runs = 0
        self.n = 0

    def same_class(self, c):
        # sanitizer classes: compare the family (asan/ubsan/tsan), model classes: exact
        fam = lambda x: x.split(":")[0] if x.split(":")[0] in ("asan", "ubsan", "tsan", "signal") else x
        return fam(c) == fam(self.cls)

    def fails(self, head, ops, tail):
        if time.time() > self.deadline or self.runs >= self.max_runs:
            return False
        self.runs += 1
        self.n += 1
        p = os.path.join(self.tmp, "shrink%d.replay" % (self.n % 4))
        with open(p, "w") as f:
            f.write(render(head, ops, [t for t in tail if not t.startswith("expect")]))
        c = replay(self.exe, p, timeout=20)
        return self.same_class(c[0])

    def ddmin(self, head, ops, tail):
        n = 2
        while len(ops) >= 2:
            chunk = max(1, len(ops) // n)
            reduced = False
            for i in range(0, len(ops), chunk):
                cand = ops[:i] + ops[i + chunk:]
                if cand and self.fails(head, cand, tail):
                    ops = cand
                    n = max(n - 1, 2)
                    reduced = True
                    break
            if not reduced:
                if chunk == 1:
                    break
                n = min(len(ops), n * 2)
        return ops

    def simplify_args(self, head, ops, tail):
        # drop fault annotations, then shrink numeric arguments toward 0
        for i in range(len(ops)):
            toks = ops[i].split()
            j = 2
            while j < len(toks):
                k, _, v = toks[j].partition("=")
                if k.startswith("fault"):
                    cand = toks[:j] + toks[j + 1:]
                    trial = ops[:i] + [" ".join(cand)] + ops[i + 1:]
                    if self.fails(head, trial, tail):
                        toks = cand
                        ops = trial
                        continue
                elif re.fullmatch(r"\d+", v) and int(v) != 0 and k not in ("t",):
                    for nv in (0, int(v) // 2, int(v) - 1):
                        if nv == int(v):
                            continue
                        cand = toks[:j] + ["%s=%d" % (k, nv)] + toks[j + 1:]
                        trial = ops[:i] + [" ".join(cand)] + ops[i + 1:]
                        if self.fails(head, trial, tail):
                            toks = cand
                            ops = trial
                            break
                j += 1
        return ops

    def simplify_sched(self, head, ops, tail):
        # replace scheduler choices by 0 (keep running the lowest runnable fiber), drop the tail
        out = []
        for t in tail:
            if not t.startswith("sched"):
                out.append(t)
                continue
            ch = t.split()[1:]
            # truncate
            lo, hi = 0, len(ch)
            while lo < hi:
                mid = (lo + hi) // 2
                if self.fails(head, ops, ["sched " + " ".join(ch[:mid])]):
                    hi = mid
                else:
                    lo = mid + 1
            ch = ch[:hi]
            # zero in blocks, then singly
            blk = max(1, len(ch) // 4)
            while blk >= 1:
                i = 0
                while i < len(ch):
                    if any(c != "0" for c in ch[i:i + blk]):
                        cand = ch[:i] + ["0"] * len(ch[i:i + blk]) + ch[i + blk:]
                        if self.fails(head, ops, ["sched " + " ".join(cand)]):
                            ch = cand
                    i += blk
                blk //= 2
            out.append("sched " + " ".join(ch))
        return out

    def shrink(self, text):
        head, ops, tail = parse_plan(text)
        before = len(ops)
        ops = self.ddmin(head, ops, tail)
        if any(t.startswith("sched") for t in tail):
            tail = self.simplify_sched(head, ops, tail)
            ops = self.ddmin(head, ops, tail)
        ops = self.simplify_args(head, ops, tail)
        ops = self.ddmin(head, ops, tail)
        return render(head, ops, tail), before, len(ops)


# ---------------------------------------------------------------- search
def run_workers(exe, engine, tier, seed, tmpdir):
    runs = engine["runs"][tier]
    # wall-clock cap after which no new runs are started (never an input of a verdict);
    # VERIF_BUDGET overrides it for experiments
    budget = float(os.environ.get("VERIF_BUDGET", engine["budget"][tier]))
    nworkers = min(JOBS, engine.get("max_workers", JOBS))
    base = [exe, "--seed", str(seed), "--runs", str(runs), "--budget", str(budget)]
    if tier == "thorough":
        base += ["--thorough", "--distinct-sample", str(engine.get("distinct_sample", 64))]
    ee = engine.get("enum_every", {}).get(tier, 0)
    if ee:
        base += ["--enum-every", str(ee)]
    base += ["--hashes-below", str(DET_RUNS)]
    procs = []
    for w in range(nworkers):
        out = open(os.path.join(tmpdir, "w%d.out" % w), "w")
        p = subprocess.Popen(base + ["--worker", str(w), str(nworkers)], stdout=out,
                             stderr=subprocess.STDOUT, env=env())
        procs.append((w, p, out))
    results = []
    deadline = time.time() + budget + 120
    for w, p, out in procs:
        try:
            p.wait(timeout=max(1, deadline - time.time()))
        except subprocess.TimeoutExpired:
            p.kill()
            p.wait()
        out.close()
        with open(os.path.join(tmpdir, "w%d.out" % w), errors="replace") as f:
            results.append((w, p.returncode, f.read()))
    return results, nworkers


def determinism_gate(exe, engine, tier, seed, worker_texts):
    """Re-executes the first DET_RUNS runs in ONE process and compares their event-log hashes with
    the ones the 16 workers produced (run i's seed depends only on (VERIF_SEED, property, i))."""
    first = {}
    for text in worker_texts:
        for m in re.finditer(r"^H (\d+) (\w+)$", text, re.M):
            first[int(m.group(1))] = m.group(2)
    cmd = [exe, "--seed", str(seed), "--runs", str(DET_RUNS), "--budget", "120", "--hashes-below", str(DET_RUNS),
           "--worker", "0", "1"] + (["--thorough"] if tier == "thorough" else [])
    r = subprocess.run(cmd, stdout=subprocess.PIPE, stderr=subprocess.STDOUT, text=True, env=env(), errors="replace")
    second = {int(m.group(1)): m.group(2) for m in re.finditer(r"^H (\d+) (\w+)$", r.stdout, re.M)}
    common = sorted(set(first) & set(second))
    bad = [i for i in common if first[i] != second[i]]
    return {"runs_compared": len(common), "mismatches": len(bad), "first_mismatch": bad[:3],
            "layouts": "16 worker processes vs 1 process"}


def locate_death(exe, engine, tier, seed, w, nworkers):
    cmd = [exe, "--seed", str(seed), "--runs", str(engine["runs"][tier]), "--budget", "120", "--announce",
           "--worker", str(w), str(nworkers)] + (["--thorough"] if tier == "thorough" else [])
    try:
        r = subprocess.run(cmd, stdout=subprocess.PIPE, stderr=subprocess.STDOUT, text=True, env=env(),
                           errors="replace", timeout=300)
    except subprocess.TimeoutExpired:
        return None
    if r.returncode == 0:
        return None
    runs = re.findall(r"^R (\d+)$", r.stdout, re.M)
    if not runs:
        return None
    return {"run": int(runs[-1]), "cls": "died", "detail": "located by announced re-execution (exit %s)" % r.returncode,
            "plan": None, "died": True}


def parse_worker(text):
    stats, cands, plans = None, [], []
    lines = text.splitlines()
    i = 0
    while i < len(lines):
        l = lines[i]
        if l.startswith("S {"):
            try:
                stats = json.loads(l[2:])
            except ValueError:
                pass
        elif l.startswith("V "):
            parts = l.split(" ", 3)
            cands.append({"run": int(parts[1]), "cls": parts[2],
                          "detail": parts[3] if len(parts) > 3 else "", "plan": None})
        elif l.startswith("VE "):
            parts = l.split(" ")
            c = {"run": int(parts[1]), "cls": parts[-1], "detail": " ".join(parts[2:-1]), "plan": None}
            if i + 1 < len(lines) and lines[i + 1] == "PLAN-BEGIN":
                j = i + 2
                buf = []
                while j < len(lines) and lines[j] != "PLAN-END":
                    buf.append(lines[j])
                    j += 1
                c["plan"] = "\n".join(buf) + "\n"
                i = j
            cands.append(c)
        elif l.startswith("DIED "):
            parts = l.split(" ", 2)
            if int(parts[1]) >= 0:
                cands.append({"run": int(parts[1]), "cls": "died",
                              "detail": parts[2] if len(parts) > 2 else "", "plan": None, "died": True})
            else:
                # died during the warm-up: the announced warm-up plan is the candidate
                m = re.search(r"^WARMUP-BEGIN\n(.*?)^WARMUP-END$", text, re.M | re.S)
                if m:
                    cands.append({"run": 0, "cls": "died", "detail": "during warm-up", "plan": m.group(1),
                                  "died": True})
        i += 1
    return stats, cands


def gen_plan(exe, seed, run, tier):
    cmd = [exe, "--gen", "--seed", str(seed), "--run", str(run)] + (["--thorough"] if tier == "thorough" else [])
    r = subprocess.run(cmd, stdout=subprocess.PIPE, text=True, env=env())
    return r.stdout


def apply_enum_fault(plan_text, detail):
    # detail: "enum op=<j> fault=<kind:k>" (a crash during single-fault enumeration)
    m = re.search(r"enum op=(\d+) fault=(\S+)", detail)
    if not m:
        return plan_text
    head, ops, tail = parse_plan(plan_text)
    j = int(m.group(1))
    if j < len(ops):
        toks = [t for t in ops[j].split() if not t.startswith("fault=")]
        ops[j] = " ".join(toks + ["fault=" + m.group(2)])
    head = [h if not h.startswith("cfg") else h + " faulty=1" for h in head]
    return render(head, ops, tail)


def main():
    if len(sys.argv) < 3:
        log(__doc__)
        return 2
    pid = sys.argv[1]
    if pid not in props.PROPS:
        log("unknown property", pid)
        return 2
    P = props.PROPS[pid]
    t0 = time.time()
    tmpdir = os.path.join(BUILD, "tmp.%d" % os.getpid())
    os.makedirs(tmpdir, exist_ok=True)
    TMPDIR[0] = tmpdir
    try:
        return run(pid, P, t0, tmpdir)
    finally:
        shutil.rmtree(tmpdir, ignore_errors=True)


def engine_for_plan(P, text):
    m = re.search(r"^property (\S+)", text, re.M)
    if m:
        for e in P["engines"]:
            if e["id"] == m.group(1):
                return e
    return P["engines"][0]


def run(pid, P, t0, tmpdir):
    if sys.argv[2] == "--replay":
        path = sys.argv[3]
        with open(path) as f:
            text = f.read()
        e = engine_for_plan(P, text)
        exe = build(e)
        if exe is None:
            return 2
        c = replay(exe, path, trace="--trace" in sys.argv)
        log(c[3])
        if c[0] == "ok":
            log("replay: no violation")
            return 0
        log("VIOLATION property=%s replay=%s" % (pid, path))
        log("class=%s %s" % (c[0], c[2]))
        return 1

    tier = sys.argv[2]
    if tier not in ("quick", "thorough"):
        log("tier must be quick or thorough")
        return 2
    seed = int(os.environ.get("VERIF_SEED", "1" if tier == "quick" else "2"))
    log("VERIF_SEED=%d property=%s tier=%s jobs=%d" % (seed, pid, tier, JOBS))

    exes = {}
    for e in P["engines"]:
        exe = build(e)
        if exe is None:
            return 2
        exes[e["id"]] = exe
    t_build = time.time() - t0

    violations = []   # (class, replay path, detail)
    known_lines = []
    findings = load_findings(pid)

    # 1. stored replays of repaired defects (regression) and of recorded known findings
    stored = 0
    for ent in findings:
        rp = os.path.join(VERIF, ent["replay"])
        if not os.path.exists(rp):
            continue
        with open(rp) as f:
            text = f.read()
        exe = exes[engine_for_plan(P, text)["id"]]
        c = replay(exe, rp)
        stored += 1
        if c[0] == "ok":
            continue
        if ent["status"] == "known":
            known_lines.append("KNOWN-FINDING: property=%s %s" % (pid, ent["what"]))
        else:
            c2 = replay(exe, rp)
            if c2[0] != c[0]:
                log("INFRA stored replay %s is not deterministic (%s vs %s)" % (rp, c[0], c2[0]))
                return 2
            violations.append((c[0], rp, "regression of a repaired defect: " + ent["what"]))

    # 2. seeded search
    agg = {"executed": 0, "nontrivial": 0, "steps": 0, "events": 0, "enum_plans": 0, "enum_runs": 0,
           "faults": {}, "probes": {}, "samples": [], "engines": {}}
    distinct = set()
    sample_mod = 1
    all_cands = []
    gate_failed = []
    for e in P["engines"]:
        exe = exes[e["id"]]
        te = time.time()
        edir = os.path.join(tmpdir, e["id"])
        os.makedirs(edir, exist_ok=True)
        env_avoid = ",".join(x["trigger"] for x in findings if x["status"] == "known" and x.get("trigger"))
        if env_avoid:
            os.environ["SIM_AVOID"] = env_avoid
        results, nworkers = run_workers(exe, e, tier, seed, edir)
        est = {"executed": 0, "wall_s": 0.0, "workers": nworkers}
        for w, rc, text in results:
            stats, cands = parse_worker(text)
            for c in cands:
                c["engine"] = e
                c["worker"] = (w, nworkers)
            all_cands += cands
            if stats is None and not cands:
                # the worker died and the death callback did not name the run: execute its share once
                # more with every run announced; the last announced run is the candidate
                located = locate_death(exe, e, tier, seed, w, nworkers)
                if located is None:
                    log("INFRA worker %d of %s died without a result (rc=%s):\n%s" % (w, e["id"], rc, text[-2000:]))
                    return 2
                located["engine"] = e
                all_cands.append(located)
                continue
            if stats is None:
                continue
            est["executed"] += stats["executed"]
            for k in ("executed", "nontrivial", "steps", "events", "enum_plans", "enum_runs"):
                agg[k] += stats[k]
            agg["states_max_per_worker"] = max(agg.get("states_max_per_worker", 0), stats.get("distinct_states", 0))
            agg["states_sum_over_workers"] = agg.get("states_sum_over_workers", 0) + stats.get("distinct_states", 0)
            agg["interleavings_max_per_worker"] = max(agg.get("interleavings_max_per_worker", 0), stats.get("distinct_interleavings", 0))
            agg["interleavings_sum_over_workers"] = agg.get("interleavings_sum_over_workers", 0) + stats.get("distinct_interleavings", 0)
            for k, v in stats["faults"].items():
                d = agg["faults"].setdefault(k, {"sites": 0, "configured": 0, "fired": 0})
                for kk in d:
                    d[kk] += v[kk]
            for k, v in stats["probes"].items():
                agg["probes"][e["id"] + ":" + k if len(P["engines"]) > 1 else k] = \
                    agg["probes"].get(e["id"] + ":" + k if len(P["engines"]) > 1 else k, 0) + v
            # up to two samples per engine, so that every engine's cases are shown
            if sum(1 for x in agg["samples"] if ("property " + e["id"] + " ") in x) < 2 and len(agg["samples"]) < 6:
                agg["samples"] += stats["samples"][:1]
            sample_mod = stats["distinct_sample_mod"]
            distinct.update((e["id"], h) for h in stats["distinct_hashes"])
        est["wall_s"] = round(time.time() - te, 2)
        if not any(c["engine"] is e for c in all_cands):
            est["determinism_gate"] = determinism_gate(exe, e, tier, seed, [t for _, _, t in results])
            if est["determinism_gate"]["mismatches"]:
                # no verdict from this engine; violations found by the other engines are still
                # reported (each one is confirmed on its own by fresh-process replays below)
                log("INFRA determinism gate failed for %s: %s" % (e["id"], est["determinism_gate"]))
                gate_failed.append(e["id"])
                agg.setdefault("gate_failed", []).append(e["id"])
        agg["engines"][e["id"]] = est

    # 3. violation pipeline: gate, minimise, replay file
    all_cands.sort(key=lambda c: (c["engine"]["id"], c["run"]))
    seen_classes = set()
    processed = 0
    for c in all_cands:
        if len(violations) >= 3 or processed >= 4:
            break
        processed += 1
        e = c["engine"]
        exe = exes[e["id"]]
        text = c["plan"] or gen_plan(exe, seed, c["run"], tier)
        if c.get("died") and "enum" in c.get("detail", ""):
            text = apply_enum_fault(text, c["detail"])
        cand = os.path.join(tmpdir, "cand.replay")
        with open(cand, "w") as f:
            f.write(text)
        r1 = replay(exe, cand)
        ms = re.search(r"^SCHED( .*)?$", r1[3], re.M)
        if ms and not re.search(r"^sched", text, re.M):
            # make the schedule explicit, so that it is part of the replay file and can be minimised
            text = text + "sched" + (ms.group(1) or "") + "\n"
            with open(cand, "w") as f:
                f.write(text)
            r1 = replay(exe, cand)
        r2 = replay(exe, cand)
        if (c.get("died") and "worker" in c and r1[0] == "ok" and r2[0] == "ok" and r1[1] == r2[1]):
            # The worker died in this run, yet the run passes in two fresh processes with the same
            # event log. Either the death depends on what the worker had executed before (then its
            # share dies again when executed once more) or it was the environment (memory or time
            # exhausted while 16 workers ran side by side): execute the worker's share once more.
            again = locate_death(exe, e, tier, seed, c["worker"][0], c["worker"][1])
            if again is None:
                log("INFRA-NOTE worker %d of %s died in run %d, but the run passes in fresh processes and the "
                    "worker's share passes when executed again: taken as resource exhaustion, not as a verdict"
                    % (c["worker"][0], e["id"], c["run"]))
                continue
            log("INFRA worker %d of %s dies again (run %d) although run %d passes on its own: the runs of a "
                "process depend on their predecessors" % (c["worker"][0], e["id"], again["run"], c["run"]))
            log("simulator nondeterminism: no verdict")
            return 2
        if r1[0] == "ok" or r1[0] != r2[0] or (r1[1] is not None and r1[1] != r2[1]):
            log("INFRA candidate run %d of %s (%s) does not reproduce identically in fresh processes: "
                "%s/%s vs %s/%s" % (c["run"], e["id"], c["cls"], r1[0], r1[1], r2[0], r2[1]))
            log("simulator nondeterminism: no verdict")
            return 2
        cls = r1[0]
        if cls == "harness":
            log("INFRA the harness itself reported an internal inconsistency (run %d): %s" % (c["run"], r1[2]))
            os.makedirs(os.path.join(OUT, "replays"), exist_ok=True)
            shutil.copy(cand, os.path.join(OUT, "replays", "harness-bug.replay"))
            return 2
        if cls in seen_classes:
            continue
        seen_classes.add(cls)
        # a hanging candidate costs the whole watchdog time per replay: shrink it only a little
        sh = Shrinker(exe, cls, tmpdir, budget_s=120, max_runs=10) if cls == "hang" else Shrinker(exe, cls, tmpdir)
        small, nb, na = sh.shrink(text)
        small = "\n".join(l for l in small.splitlines() if not l.startswith("expect")) + "\n"
        os.makedirs(os.path.join(OUT, "replays"), exist_ok=True)
        path = os.path.join(OUT, "replays", "%s-%d-%d.replay" % (e["id"], seed, c["run"]))
        with open(path, "w") as f:
            f.write(small + "expect class=%s\n" % cls)
        r3 = replay(exe, path)
        if not sh.same_class(r3[0]):
            # minimisation went wrong: fall back to the unminimised plan
            with open(path, "w") as f:
                f.write(text + "expect class=%s\n" % cls)
            r3 = replay(exe, path)
        log("violation class=%s run=%d engine=%s ops %d -> %d (%d shrink replays)" %
            (r3[0], c["run"], e["id"], nb, na, sh.runs))
        log("detail: %s" % (r3[2] or c["detail"]))
        violations.append((r3[0], path, r3[2] or c["detail"]))

    wall = time.time() - t0
    write_evidence(pid, P, tier, seed, agg, distinct, sample_mod, violations, wall, t_build, stored)
    for l in known_lines:
        log(l)
    for cls, path, detail in violations:
        log("VIOLATION property=%s replay=%s" % (pid, path))
    log("%s %s: %d runs (+%d single-fault re-runs), %d violations, %.1fs (build %.1fs)" %
        (pid, tier, agg["executed"], agg["enum_runs"], len(violations), wall, t_build))
    if violations:
        return 1
    if gate_failed:
        log("simulator nondeterminism in %s: no verdict" % ", ".join(gate_failed))
        return 2
    return 0


def load_findings(pid):
    p = os.path.join(VERIF, "known_findings.json")
    if not os.path.exists(p):
        return []
    with open(p) as f:
        data = json.load(f)
    return [e for e in data.get("findings", []) if e["property"] == pid]


def write_evidence(pid, P, tier, seed, agg, distinct, sample_mod, violations, wall, t_build, stored):
    search_wall = max(0.001, sum(e["wall_s"] for e in agg["engines"].values()))
    total_runs = agg["executed"] + agg["enum_runs"]
    fired_kinds = {k: v for k, v in agg["faults"].items() if v["sites"] or v["configured"] or v["fired"]}
    ev = {
        "property_id": pid,
        "tier": tier,
        "seed": seed,
        "level": "exploration",
        "coverage": {
            "evaluations": max(1, total_runs),
            "distinct_nontrivial": len(distinct),
            "rule": P["rule"] + (" Distinct = distinct plan hashes (operations, arguments, fault annotations, "
                                 "schedule) among non-trivial runs"
                                 + ("; only hashes divisible by %d are kept in the thorough tier, so the "
                                    "number is a lower bound (multiply by about %d for an estimate)."
                                    % (sample_mod, sample_mod) if sample_mod != 1 else ", counted exactly.")),
            "samples": agg["samples"] or ["(no non-trivial run)"],
            "exhaustive": False,
            "seeded_runs": agg["executed"],
            "nontrivial_runs": agg["nontrivial"],
            "single_fault_enumeration": {"plans": agg["enum_plans"], "reruns": agg["enum_runs"]},
            "logical_steps": agg["steps"],
            "distinct_model_states": {"measure": "hash of the reference model's state after every step (contents of all "
                                                 "containers / forest shape / memberships / stream offset and flags / level "
                                                 "map), distinct values counted per worker process, capped at 3e6 per worker",
                                      "max_in_one_worker": agg.get("states_max_per_worker", 0),
                                      "sum_over_workers": agg.get("states_sum_over_workers", 0)},
            "distinct_interleavings": {"measure": "hash of the per-run sequence of (fiber, lock/unlock/atomic kind, object) events; "
                                                  "distinct values counted per worker process",
                                       "max_in_one_worker": agg.get("interleavings_max_per_worker", 0),
                                       "sum_over_workers": agg.get("interleavings_sum_over_workers", 0)},
            "events_logged": agg["events"],
            "runs_per_hour": int(total_runs / search_wall * 3600),
            "simulated_time": "none: the code under test has no timers or deadlines; logical steps are reported instead",
            "faults_injected": fired_kinds,
            "probes": agg["probes"],
            "engines": agg["engines"],
            "stored_replays_run": stored,
            "components_real": P["real"],
            "components_stub": P["stub"],
            "violation_classes": [v[0] for v in violations],
        },
        "assumptions": P["assumptions"],
        "wall_s": round(wall, 2),
        "build_s": round(t_build, 2),
        "violations": len(violations),
        "no_verdict_engines": list(agg.get("gate_failed", [])),
    }
    os.makedirs(os.path.join(OUT, "evidence"), exist_ok=True)
    p = os.path.join(OUT, "evidence", pid + ".json")
    with open(p + ".tmp", "w") as f:
        json.dump(ev, f, indent=1)
        f.write("\n")
    os.replace(p + ".tmp", p)


if __name__ == "__main__":
    sys.exit(main())
