#!/usr/bin/env python3
"""Determinism proof on a large sample: for every engine of the given properties, N seeds are
executed in two different process layouts (16 workers and 5 workers) and the event-log hashes of
every run are compared. The summary is written to /verif/determinism_report.json.

usage: determinism.py [N] [PROP...]      (default N = 5000, all properties)
"""
import json
import os
import re
import subprocess
import sys
import time

VERIF = os.path.dirname(os.path.dirname(os.path.abspath(__file__)))
sys.path.insert(0, os.path.join(VERIF, "tools"))
import driver
import props


def hashes(exe, seed, n, workers):
    procs = []
    for w in range(workers):
        cmd = [exe, "--seed", str(seed), "--runs", str(n), "--budget", "600", "--hashes", "--worker", str(w), str(workers)]
        procs.append(subprocess.Popen(cmd, stdout=subprocess.PIPE, stderr=subprocess.DEVNULL, text=True, env=driver.env(),
                                      errors="replace"))
    out = {}
    for p in procs:
        text, _ = p.communicate()
        for m in re.finditer(r"^H (\d+) (\w+)$", text, re.M):
            out[int(m.group(1))] = m.group(2)
    return out


def main():
    args = sys.argv[1:]
    n = 5000
    if args and args[0].isdigit():
        n = int(args.pop(0))
    ids = args or sorted(props.PROPS)
    tmp = os.path.join(driver.BUILD, "tmp.det.%d" % os.getpid())
    os.makedirs(tmp, exist_ok=True)
    driver.TMPDIR[0] = tmp
    report = {"seeds_per_engine": n, "layouts": [16, 5], "engines": {}, "at": time.strftime("%Y-%m-%d %H:%M:%S")}
    bad = 0
    for pid in ids:
        for e in props.PROPS[pid]["engines"]:
            exe = driver.build(e)
            if exe is None:
                return 2
            for seed in (1, 7):
                a = hashes(exe, seed, n, 16)
                b = hashes(exe, seed, n, 5)
                common = sorted(set(a) & set(b))
                mism = [i for i in common if a[i] != b[i]]
                key = "%s seed=%d" % (e["id"], seed)
                report["engines"][key] = {"runs_compared": len(common), "mismatches": len(mism), "first": mism[:5]}
                print(key, report["engines"][key], flush=True)
                bad += len(mism)
    with open(os.path.join(VERIF, "determinism_report.json"), "w") as f:
        json.dump(report, f, indent=1)
        f.write("\n")
    import shutil
    shutil.rmtree(tmp, ignore_errors=True)
    return 1 if bad else 0


if __name__ == "__main__":
    sys.exit(main())
