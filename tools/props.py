"""Per-property configuration of the simulation checks (engines, budgets, evidence texts)."""

REAL_COMMON = ["all fcppt code involved, compiled from /repo's working tree on every check",
               "libstdc++ (containers, iostreams, locale)", "AddressSanitizer + UBSan runtime as monitors"]

PROPS = {
    "C07": {
        "engines": [{
            "id": "C07", "bin": "c07", "flavour": "asan",
            "runs": {"quick": 300000, "thorough": 20000000},
            "budget": {"quick": 40, "thorough": 900},
            "enum_every": {"quick": 200, "thorough": 50},
        }],
        "rule": "One run = one generated operation history (1-60 operations, up to 3 raw_vector and 2 buffer "
                "objects of element type unsigned char / int / 12-byte struct, allocator = simulated allocator "
                "with exact ledger) executed step by step against std::vector, with allocation failures and "
                "short/failing/throwing readers attached to individual operations in about half of the runs. "
                "Non-trivial = at least 3 operations had an effect (preconditions met).",
        "real": REAL_COMMON + ["raw_vector, buffer, append_from(_opt), read_from(_opt), to_raw_vector, io::read_chars"],
        "stub": ["allocator (sim::Alloc: malloc + ledger + injected bad_alloc)",
                 "reader callbacks and input ranges (sim reader: full, short, nothing, throwing)",
                 "the file behind std::istream for read_chars (sim::StreamBuf: chunked, failing refills)"],
        "assumptions": ["moved-from objects are only required to be valid (their contents are read back, not predicted)",
                        "ranges inserted into a vector never alias the same vector (undefined for std::vector too)",
                        "after an injected failure the object may hold the before-state or the after-state (for input ranges: any prefix inserted)"],
    },
}
