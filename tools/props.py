"""Per-property configuration of the simulation checks (engines, budgets, evidence texts)."""

REAL_COMMON = ["all fcppt code involved, compiled from /repo's working tree on every check",
               "libstdc++ (containers, iostreams, locale)", "AddressSanitizer + UBSan runtime as monitors"]

PROPS = {
    "C07": {
        "engines": [{
            "id": "C07", "bin": "c07", "flavour": "asan",
            "runs": {"quick": 300000, "thorough": 400000000},
            "budget": {"quick": 40, "thorough": 900},
            "enum_every": {"quick": 200, "thorough": 50},
        }],
        "rule": "One run = one generated operation history (1-60 operations, up to 3 raw_vector and 2 buffer "
                "objects of element type unsigned char / int / 12-byte struct, allocator = simulated allocator "
                "with exact ledger) executed step by step against std::vector, with allocation failures and "
                "short/failing/throwing readers attached to individual operations in about half of the runs. "
                "Non-trivial = at least 3 operations had an effect (preconditions met).",
        "real": REAL_COMMON + ["raw_vector, buffer, append_from(_opt), read_from(_opt), to_raw_vector, io::read_chars"],
        "stub": ["allocator (sim::Alloc: malloc + ledger + injected bad_alloc)",
                 "reader callbacks and input ranges (sim reader: full, short, nothing, throwing)",
                 "the file behind std::istream for read_chars (sim::StreamBuf: chunked, failing refills)"],
        "technique": "deterministic simulation with fault injection: seeded operation histories against a std::vector reference model, injected allocation failures and short/failing readers, allocation ledger, ASan/UBSan monitors, single-fault enumeration, minimised replay",
        "level_text": "Seeded search over operation histories (up to 60 operations, 3 vectors + 2 buffers, three element types; source ranges from forward and input iterators, aliasing the container, and of another element type that converts to T) with allocation failures and failing/short readers attached to individual operations; every step is compared with std::vector (contents, size, returned iterator offsets, capacity >= size), with an exact allocation ledger (leak, double free, size mismatch, capacity == block size) and ASan/UBSan. Sampling, not proof: the evidence states runs, faults fired and rare paths reached.",
        "level_note": "Stubs: allocator (malloc + ledger + injected bad_alloc), reader callbacks/input ranges, the stream behind io::read_chars. Trusted: std::vector as the model, ASan/UBSan, the harness. Moved-from objects are only required to be valid.",
        "assumptions": ["moved-from objects are only required to be valid (their contents are read back, not predicted)",
                        "ranges inserted into a vector never alias the same vector (undefined for std::vector too)",
                        "after an injected failure the object may hold the before-state or the after-state (for input ranges: any prefix inserted)"],
    },
    "C09": {
        "engines": [{
            "id": "C09", "bin": "c09", "flavour": "asan",
            "runs": {"quick": 150000, "thorough": 400000000},
            "budget": {"quick": 40, "thorough": 900},
            "enum_every": {"quick": 100, "thorough": 25},
        }],
        "rule": "One run = one generated operation history (1-40 operations) over a forest of up to 4 root "
                "slots of tree::object<sim::Val>, operands chosen among all live nodes (roots and inner nodes); "
                "allocation failures and element-copy failures are attached to individual operations in about "
                "half of the runs. After every step the whole forest is compared with a recursive reference model "
                "and the link invariant is checked on the real objects. Non-trivial = at least 3 effective operations.",
        "real": REAL_COMMON + ["tree::object, pre_order, to_root, depth, level, child_position, map, comparison"],
        "stub": ["global operator new/delete (tagging + injected bad_alloc)",
                 "element type sim::Val (unique id, heap payload, copies fail on the simulator's order)"],
        "technique": "deterministic simulation with fault injection: seeded operation histories over a forest against a recursive reference model, injected allocation and element-copy failures, link invariant after every step, heap/value leak ledger, ASan/UBSan monitors, single-fault enumeration, minimised replay",
        "level_text": "Seeded search over operation histories (up to 40 operations, forest of up to 4 trees, operands among all live nodes) with allocation, element-copy and element-swap failures attached to individual operations; after every step the link invariant (every child's parent() is the node listing it, roots have none) is checked on the real objects, shape/values/traversals (pre_order, to_root, depth, level, child_position, map, ==) are compared with a recursive model, ASan watches for stale links, a ledger for leaks. Sampling, not proof.",
        "level_note": "Stubs: global operator new/delete (tagging + injected bad_alloc), element type sim::Val. Trusted: the recursive model, ASan/UBSan, the harness. Excluded by precondition: assignment/swap between a node and its own ancestor or descendant.",
        "assumptions": ["assignment and swap between a node and its own ancestor/descendant are excluded (no meaning promised)",
                        "moved-from roots are only required to be valid and childless; they are destroyed right away",
                        "after an injected failure the touched trees may hold any state between before and after, but links must be consistent and nothing may leak"],
    },
    "C11": {
        "engines": [{
            "id": "C11", "bin": "c11", "flavour": "asan",
            "runs": {"quick": 200000, "thorough": 400000000},
            "budget": {"quick": 40, "thorough": 900},
            "enum_every": {"quick": 100, "thorough": 25},
        }],
        "technique": "deterministic simulation with fault injection: seeded create/destroy/move histories of elements, lists, signals and connections against a membership model, injected allocation failures in connect and throwing callbacks, ring-closure invariant, invocation log, ASan as the stale-pointer monitor, minimised replay",
        "level_text": "Seeded search over histories (up to 50 operations) of up to 3 intrusive lists with 8 heap-allocated elements and up to 3 signals (value/void, with and without unregister base) with 8 connections: creation, destruction in every order (lists and signals before their members), move construction and move assignment of elements, lists and signals from empty and non-empty sources, unlink, calls, throwing callbacks, callbacks that act from inside a call (destroy another connection of the signal being called or of another one, connect to the same or another signal, call another signal), allocation failure in connect, unregister callbacks that inspect empty() and destroy the signal (documented use). After every step forward/backward/const iteration and empty() are compared with the model (bounded, so a corrupted ring cannot hang the check), every call's invocation order and fold result are compared, unregister callbacks must run exactly once at the connection's death. The fault space is small (allocation in connect/sig construction, throwing callback) and is reported as such. Sampling, not proof.",
        "level_note": "Stubs: global operator new/delete (tagging + injected bad_alloc), callbacks (log + injected throw). Trusted: the membership model, ASan/UBSan, the harness. Excluded by precondition: callbacks that connect/disconnect/destroy during a call (no re-entrancy promised), throwing unregister callbacks (documented std::terminate), use of a moved-from signal other than destroying or assigning to it. List move-assignment orphans the target's previous members (not demanded to stay).",
        "rule": "One run = one generated history (1-50 operations) over intrusive lists/elements and/or signals/connections, "
                "about a third of the runs with injected allocation failures and throwing callbacks. Non-trivial = at least 3 effective operations.",
        "real": REAL_COMMON + ["intrusive::list/base/iterator, signal::object/base/unregister::base, connections, fcppt::function"],
        "stub": ["global operator new/delete (tagging + injected bad_alloc)", "signal and unregister callbacks (invocation log, injected exception)"],
        "assumptions": ["L = std::move(M) orphans L's previous members (in no list, still safely movable and destructible)",
                        "no re-entrant connect/disconnect during a call; unregister callbacks do not throw",
                        "a moved-from signal is only destroyed, assigned to or asked empty()"],
    },
    "C12": {
        "engines": [{
            "id": "C12", "bin": "c12", "flavour": "asan",
            "runs": {"quick": 300000, "thorough": 400000000},
            "budget": {"quick": 40, "thorough": 900},
            "enum_every": {"quick": 100, "thorough": 25},
        }, {
            "id": "C12-conc", "bin": "c12c", "flavour": "tsan",
            "runs": {"quick": 60000, "thorough": 400000000},
            "budget": {"quick": 15, "thorough": 300},
        }],
        "technique": "deterministic simulation with fault injection: seeded read/save/restore/parse histories over a simulated stream buffer (chunked refills, injected read errors, failing seeks, truncation) against a text+index model with line/column recomputed from scratch; differential run of every grammar against a real stringbuf; second engine: 2-4 fibers under the seeded scheduler, each with its own streams, ThreadSanitizer (fiber API) as monitor, differential against the same job run alone; minimised replay",
        "level_text": "Seeded search over texts (newline-heavy, up to 25/40 characters, char and wchar_t) and histories (up to 40) of get_char / get_position / set_position(saved) / character-level parsers / 9 compound grammars on parse::detail::stream, the stream buffer being simulated (chunk sizes 1,2,3,7,whole; with and without put-back support; refills that throw; seeks/tells that fail; truncation at an arbitrary byte) or real (stringbuf, filebuf, and a wide filebuf over a UTF-8 file whose positions count bytes). Every returned character, offset, line and column is compared with a model that recomputes them from scratch; error texts of literal/char_set must carry the location immediately after the offending character; after a read error no call may yield a character and a grammar may only fail or yield what the text before the error yields; after a failed seek only failure or the true next character is accepted. Second engine (C12-conc): 2-4 simulated threads, each parsing its own texts through its own stream; each job must give the same characters, position, result or complete error message as when it runs alone, and ThreadSanitizer must stay silent (streams that share nothing do not influence each other). Sampling, not proof.",
        "level_note": "Stubs: the streambuf (sim::StreamBuf) in 70% of the runs; real std::basic_stringbuf / std::basic_filebuf in the rest (no faults there). Trusted: the text+index model, a real stringbuf as the reference for grammar results, ASan/UBSan, the harness.",
        "rule": "One run = one text plus one history of stream operations executed on one parse stream; about a third of the runs inject read errors / seek failures / truncation. Non-trivial = at least 3 effective operations. C12-conc: one run = 2-4 fibers x 1-4 parse jobs under one seeded schedule; non-trivial = at least 2 jobs.",
        "real": REAL_COMMON + ["parse::detail::stream, get_char/get_position/set_position, basic_literal/char_set/char/string, all operators, phrase_parse", "std::basic_istream, std::basic_stringbuf, std::basic_filebuf"],
        "stub": ["stream buffer behind the istream (sim::StreamBuf: chunking, put-back on/off, read errors, seek failures, truncation) in 70% of the runs", "thread scheduling, per-thread storage and exception state (fiber scheduler; C12-conc engine)"],
        "assumptions": ["a failed seek leaves the file position unchanged (as the simulated buffer implements it)",
                        "after a read error every later operation may fail; none may produce a character"],
    },
    "C15": {
        "engines": [{
            "id": "C15", "bin": "c15", "flavour": "asan",
            "runs": {"quick": 200000, "thorough": 400000000},
            "budget": {"quick": 40, "thorough": 900},
            "enum_every": {"quick": 50, "thorough": 20},
        }],
        "technique": "deterministic simulation with fault injection: seeded write-then-read scenarios over simulated files (torn/short writes, truncation at an arbitrary byte, chunked and failing reads) and over a simulated codecvt facet (narrowed output windows, injected errors, torn encodings); oracle 'value read == value written, or failure, never another value'; byte layout on the simulated disk; minimised replay",
        "level_text": "Covers the stream- and facet-facing subset of C15: io::write -> io::read for eleven arithmetic types (integers of every width, float, double, long double) and both byte orders (including the byte layout on the simulated disk), write_chars -> read_chars, operator<< / operator>> of math::vector, math::dim and an enum over char and wchar_t streams, narrow_locale / widen_locale through a simulated codecvt facet layered on the real C.utf8 facet (strings of 0-40 characters including now and then U+0000, one in sixteen 41-2048), and in fault-free conversions also narrow / widen / from_std_wstring / to_std_wstring with the environment's locale set to C.UTF-8. Faults: the writer's file accepts only n bytes (torn write), the reader sees only the first n bytes (lost tail), refills throw, the facet offers narrow output windows on its first calls (legal partial results), answers partial for ever from some offset, or reports an error, encodings are torn inside a character. Oracle: every acknowledged value lying wholly in the file reads back exactly; a torn or missing value yields failure, never a value; no read succeeds after a failed one; conversions return the complete result or report failure (a strict prefix is 'silent truncation'). output_to_std_string / output_to_std_wstring -> extract_from_string also run with injected allocation failures (a conversion hit by one reports it or returns the complete text, and later conversions are unaffected); endianness::swap twice and enum to_string -> from_string ride along in fault-free runs only. NOT covered: the exhaustive sweep over all Unicode scalar values and all 8/16-bit integers (pure input enumeration, no seam). Sampling, not proof.",
        "level_note": "Stubs: the files behind the streams (sim::StreamBuf), the codecvt facet wrapper (sim::Codecvt over the real C.utf8 facet). Trusted: an independent UTF-8 encoder as reference, the harness, ASan/UBSan. long double is excluded (padding bytes do not survive by-value passing).",
        "rule": "One run = 1-6 independent write-then-read scenarios (binary values, raw chars, text formats, codecvt conversions), half of the runs with injected faults. Every scenario counts as non-trivial; distinct = distinct plans.",
        "real": REAL_COMMON + ["io::read/write, endianness::convert/swap/reverse_mem, write_chars/read_chars, enum_::input/output/to_string/from_string, math vector/dim input/output, impl::codecvt via narrow_locale/widen_locale, output_to_string/extract_from_string", "the real C.utf8 codecvt facet underneath sim::Codecvt"],
        "stub": ["files behind std::istream/std::ostream (sim::StreamBuf: accept limit, truncation, chunked and failing refills)", "codecvt facet wrapper (window narrowing, injected error)"],
        "assumptions": ["the host is little endian (static_assert in the harness)", "enum names are prefix-free, plain decimal integers are never torn (a torn decimal is legitimately another number)",
                        "for an encoding torn inside its last character both failure and the conversion of all whole characters are accepted (the real C.utf8 facet reports ok and keeps the tail in its state); losing a whole character is not"],
    },
    "C01": {
        "engines": [{
            "id": "C01", "bin": "c01", "flavour": "asan",
            "runs": {"quick": 150000, "thorough": 400000000},
            "budget": {"quick": 40, "thorough": 900},
            "enum_every": {"quick": 50, "thorough": 20},
        }],
        "technique": "deterministic simulation with fault injection: seeded calls of the stream-, callback-, facet-, file-system- and allocator-facing part of the safe API with read errors, seek failures, truncation, facet partial/error results, injected errno values and allocation failures; totality oracle (only documented outcomes, bounded seam calls, no leak), ASan/UBSan monitors, per-run watchdog, minimised replay",
        "level_text": "Covers ONLY the fault-facing subset of C01: io::stream_to_string, io::read_chars, io::read, io::extract, io::get/peek, io::expect, vector input, phrase_parse_stream (stream exceptions off and on; also parse::int_ / parse::uint with numbers at and around the limits of the target type: success must carry the exact value), buffer::read_from_opt with failing/throwing readers, narrow_locale/widen_locale/from_std_wstring_locale/to_std_wstring_locale through a simulated codecvt facet (also with torn and garbage input), filesystem::file_size/create_directory/create_directories_recursive/make_directory_range/make_recursive_directory_range/open/open_exn with injected errno values on stat, lstat, mkdir, openat and fopen64 and on a populated scratch directory (missing file, directory, symlink loop, dangling link, ENOTDIR, ENAMETOOLONG), every call also with allocation failures. Oracle: the call returns, or leaves only through its documented channel (bad_alloc only when injected; runtime_error only from widen; fcppt::exception only from open_exn; the caller's own exception only from a throwing callback or a stream with exceptions() enabled); seam calls stay linear in the input (termination); nothing leaks; sanitizers silent. NOT covered: the pure-arithmetic, container, enum, cast, options and string-parsing anchors of C01 (no seam; a defect there is invisible to this check). Sampling, not proof.",
        "level_note": "Stubs: stream buffers, codecvt facet wrapper, stat/lstat/mkdir/openat/fopen64 interposers, global operator new. Trusted: the harness's table of documented outcomes per call, ASan/UBSan, glibc underneath the interposers.",
        "rule": "One run = 1-6 calls of registered total functions, two thirds of the runs with one injected fault per call. Every call counts as non-trivial; distinct = distinct plans.",
        "real": REAL_COMMON + ["the io, parse-stream, buffer, codecvt and filesystem functions listed in the level text", "std::filesystem of libstdc++, the real C.utf8 facet, a real scratch directory"],
        "stub": ["stream buffers (sim::StreamBuf)", "codecvt facet wrapper (sim::Codecvt)", "stat/lstat/mkdir/openat/fopen64 (errno injection, pass-through otherwise)", "global operator new (injected bad_alloc, tagging)"],
        "assumptions": ["std::locale construction from the environment (string_conv_locale) is not exercised; LC_ALL=C is forced",
                        "results are other properties' business: only totality is judged here (plus the obvious size/nothing check of file_size, and the exact value of a successfully parsed integer - a wrapped value is an unreported failure)"],
    },
    "C19": {
        "engines": [{
            "id": "C19-seq", "bin": "c19s", "flavour": "asan",
            "runs": {"quick": 100000, "thorough": 400000000},
            "budget": {"quick": 30, "thorough": 600},
            "enum_every": {"quick": 400, "thorough": 100},
        }, {
            "id": "C19-conc", "bin": "c19c", "flavour": "tsan",
            "runs": {"quick": 150000, "thorough": 400000000},
            "budget": {"quick": 30, "thorough": 900},
        }],
        "technique": "deterministic simulation with fault injection: (a) seeded sequential histories against the 'latest prefix set wins' model with injected allocation failures and failing sinks; (b) seeded thread schedules of 2-6 fibers on one OS thread, every mutex and atomic operation a scheduling point (link-time wrapped), ThreadSanitizer driven through its fiber API as in-simulation race monitor, linearizability check of the recorded history, deadlock and step bound; minimised replay including the schedule",
        "level_text": "(a) Sequential: histories up to 60 of set/get/object creation (from context, from location, from parent)/level/enabled/log over all 40 locations of depth <= 3 with 3 names per level; every get/level/enabled equals the model, a message appears on the sink of its level iff level >= current level, exactly once, with the documented text (user formatter outermost, then the location prefix, then the level stream's own formatter if it has one), on no other sink; allocation failures may interrupt an operation (afterwards every location holds the old or the new level), sinks may refuse output. (b) Concurrent: see the C19-conc engine. Sampling, not proof; weak-memory effects are out of reach (sequentially consistent interleavings only).",
        "level_note": "Stubs: OS thread scheduler (fiber scheduler), blocking behaviour of the context mutex (simulated owner table; the real pthread_mutex_lock is still called when free so TSan sees acquire/release), sinks (sim::StreamBuf), global operator new. Trusted: the reference model, the linearizability checker, ThreadSanitizer's happens-before tracking under its fiber API, ASan/UBSan, the harness.",
        "rule": "One run = one generated history (sequential engine: 1-60 operations, half of the runs with injected faults; concurrent engine: 2-6 fibers x 1-6 operations under one seeded schedule). Non-trivial = at least 3 effective operations. Distinct = distinct plans (operations + schedule).",
        "real": REAL_COMMON + ["all of fcppt.log (context, object, level streams, formatters), tree::object/pre_order/to_root underneath", "ThreadSanitizer runtime (concurrent engine)"],
        "stub": ["sinks behind std::ostream (sim::StreamBuf, refusing output on order)", "global operator new (injected bad_alloc, tagging)", "thread scheduling, mutex / rwlock blocking, per-thread storage and exception state (fiber scheduler; concurrent engine)"],
        "assumptions": ["log objects are not shared between threads and sinks are written by one thread at a time (the documentation promises no more)",
                        "lock-free object::level()/enabled() reads are judged one at a time against the lock-protected operations (joint linearizability of several lock-free reads is not promised)",
                        "the memory order of the per-node atomics is not checked (sequentially consistent interleavings only)"],
    },
}
