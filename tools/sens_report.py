#!/usr/bin/env python3
"""Renders /verif/sensitivity_results.json as the markdown tables of DESIGN.md section 11 and
replaces that section in DESIGN.md."""
import json
import os
import re
import sys
VERIF = os.path.dirname(os.path.dirname(os.path.abspath(__file__)))
sys.path.insert(0, os.path.join(VERIF, "tools"))
import mutants

data = json.load(open(os.path.join(VERIF, "sensitivity_results.json")))
mm = {m["id"]: m for m in mutants.MUTANTS}


def verdict(d):
    if d.get("withdrawn"):
        return "not counted"
    if d["exit"] == 1:
        return "caught"
    if d["exit"] == 0:
        return "**missed**"
    return "infra (exit %s)" % d["exit"]


out = []
out.append("## 11. Sensitivity: which checks catch which changes\n")
out.append("Every change below was applied to a scratch copy of the repository outside `/repo` and `/verif` "
           "(`tools/sensitivity.py`), the property's quick check (`./run.sh <id> quick`, seed 1) was run against it, and "
           "the scratch copy removed. `first run` is the index of the first failing seeded run (0-based); `F` marks planted "
           "defects that only a fault-injecting or multi-fiber configuration can expose. The table is generated from "
           "`sensitivity_results.json` by `tools/sens_report.py`.\n")
out.append("### 11.1 Independently written changes (`seeded/<id>/`)\n")
out.append("Written by sub-agents that were given only the property text and a scratch worktree (rounds 2-4 also a list of "
           "ideas already used, so that they would not repeat them; round 6 ran after the oracles had been reviewed and relaxed; round 12, the last one, again with nothing but the property text); each was confirmed before being kept (patch applies to "
           "HEAD, 433/433 tests pass with it, its demonstration fails with it and passes without it: "
           "`seeded/<id>/confirm.log`). Changes marked *adversarial* (four in round 4, all of round 7) were written by authors who were "
           "additionally told in prose what the check drives and observes (no file from `/verif`) and asked for a change likely "
           "to slip past it - nearly all of them did slip past the check as it stood and were caught only after the workload, a "
           "seam or an oracle had been extended; what was extended is in the result column, so that the table also records "
           "what the checks could NOT see before. the history is in the result column.\n")
out.append("| change | property | source | what it needs to manifest | result | violation classes | first run |")
out.append("|---|---|---|---|---|---|---|")
for k in sorted(data):
    d = data[k]
    if d.get("kind") != "seeded":
        continue
    meta = {}
    mp = os.path.join(VERIF, "seeded", k, "meta.json")
    if os.path.exists(mp):
        meta = json.load(open(mp))
    needs = meta.get("needs_to_manifest", "")
    note = (" (" + d["note"] + ")") if d.get("note") else ""
    src = "adversarial" if "ADVERSARIAL" in meta.get("source", "") else "independent"
    out.append("| `%s` | %s | %s | %s | %s%s | %s | %s |" % (k, d["prop"], src, needs, verdict(d), note, ", ".join(d["classes"]), d["first_run"]))
out.append("")
out.append("### 11.2 Planted defects (`tools/mutants.py`)\n")
out.append("| id | property | file | F | expected | result | violation classes | first run |")
out.append("|---|---|---|---|---|---|---|---|")
for k in sorted(data, key=lambda x: (x.split("-")[0], x)):
    d = data[k]
    if d.get("kind") != "planted":
        continue
    out.append("| %s | %s | `%s` | %s | %s | %s | %s | %s |" % (
        k, d["prop"], os.path.basename(d.get("file", "")), "F" if d.get("fault") else "", d.get("expected", ""),
        verdict(d), ", ".join(d["classes"]) or "(regression replays of repaired defects fired first)", d["first_run"]))
planted = [d for d in data.values() if d.get("kind") == "planted"]
seeded = [d for d in data.values() if d.get("kind") == "seeded" and not d.get("withdrawn")]
out.append("")
withdrawn = [d for d in data.values() if d.get("kind") == "seeded" and d.get("withdrawn")]
out.append("Planted: %d of %d caught. Seeded: %d of %d caught (%d further seeded changes are not counted - two do not violate their property as worded (stability of `tree::sort`; what a moved-from list holds after a move assignment implemented as a swap), one needs a thread interleaving that its property does not quantify over, one was neutralised by a later repair of the library; the reason is in each row's result column).\n" % (
    sum(1 for d in planted if d["exit"] == 1), len(planted), sum(1 for d in seeded if d["exit"] == 1), len(seeded), len(withdrawn)))
# negative controls
cpath = os.path.join(VERIF, "controls_results.json")
if os.path.exists(cpath):
    cdata = json.load(open(cpath))
    out.append("### 11.3 Negative controls (`controls/<id>/`): changes under which the property still holds\n")
    out.append("Substantial but property-preserving changes (alternative algorithms, other allocation and growth policies, "
               "reader/writer locks, conversions in pieces, `unget` with a seek fallback, reworded messages, ...), most of them "
               "written by sub-agents that were given only the property text and a scratch worktree and asked for refactorings a "
               "maintainer could commit (433/433 tests pass with each; the argument why the property is preserved is in "
               "`controls/<id>/notes.md`). The property's quick check is run against each one exactly as against the breaking "
               "changes (`tools/sensitivity.py controls`) and **must stay silent**. A control that made a check speak up led "
               "either to a correction of the check (noted below) or, had it really broken the property, would have been moved "
               "to `seeded/`.\n")
    out.append("| control | property | what changes | check |")
    out.append("|---|---|---|---|")
    for k in sorted(cdata):
        d = cdata[k]
        what = ""
        mp = os.path.join(VERIF, "controls", k, "meta.json")
        if os.path.exists(mp):
            m = json.load(open(mp))
            what = m.get("change", "") or m.get("summary", "")
        out.append("| `%s` | %s | %s | %s |" % (k, d["prop"], what, "silent" if d["silent"] else "**ALARM** " + ", ".join(d["classes"])))
    out.append("")
    out.append("Silent on %d of %d negative controls.\n" % (sum(1 for d in cdata.values() if d["silent"]), len(cdata)))
text = "\n".join(out) + "\n"
p = os.path.join(VERIF, "DESIGN.md")
s = open(p).read()
i = s.index("## 11. Sensitivity: which checks catch which changes")
s = s[:i] + text
open(p, "w").write(s)
print(text[-400:])
