#!/usr/bin/env python3
"""Build one flavour of fcppt (from $REPO's current working tree) plus one property binary.

usage: build.py <flavour> <binary>     flavour in {asan, tsan}
Content-hashes $REPO/libs and /verif/sim; mtime is never trusted. A changed hash rebuilds the
affected part from scratch. The build directory is protected by flock, so several checks may be
started concurrently.
"""
import concurrent.futures
import fcntl
import hashlib
import os
import shutil
import subprocess
import sys

VERIF = os.path.dirname(os.path.dirname(os.path.abspath(__file__)))
REPO = os.environ.get("REPO", "/repo")
BUILD = os.environ.get("VERIF_BUILD", os.path.join(VERIF, "build"))
JOBS = int(os.environ.get("VERIF_JOBS", "16"))
CXX = os.environ.get("VERIF_CXX", "g++")

COMMON = [
    "-std=c++20", "-g1", "-fno-omit-frame-pointer", "-DFCPPT_STATIC_LINK", "-DENABLE_THREADS",
    "-D_GLIBCXX_ASSERTIONS", "-pthread", "-w",
]
FLAVOURS = {
    "asan": ["-O1", "-fsanitize=address,undefined", "-fno-sanitize-recover=undefined"],
    "tsan": ["-O1", "-fsanitize=thread"],
    "plain": ["-O1"],
}
# library sources per flavour (directories below $REPO/libs)
LIB_DIRS = {
    "asan": ["core/src", "log/src", "log/impl/src", "filesystem/src", "filesystem/impl/src",
             "options/src", "options/impl/src"],
    "tsan": ["core/src", "log/src", "log/impl/src"],
    "plain": ["core/src", "log/src", "log/impl/src", "filesystem/src", "filesystem/impl/src"],
}

# symbols of the code under test that the fiber scheduler takes over at link time (--wrap)
WRAPPED = (["pthread_mutex_lock", "pthread_mutex_unlock", "pthread_mutex_trylock",
            "pthread_rwlock_rdlock", "pthread_rwlock_wrlock", "pthread_rwlock_tryrdlock",
            "pthread_rwlock_trywrlock", "pthread_rwlock_unlock", "__cxa_thread_atexit"] +
           ["__tsan_atomic%d_%s" % (w, op) for w in (8, 16, 32, 64)
            for op in ("load", "store", "exchange", "fetch_add", "fetch_sub", "fetch_and", "fetch_or",
                       "fetch_xor", "fetch_nand", "compare_exchange_strong", "compare_exchange_weak")])
C19C_WRAPS = ["-Wl,--wrap=" + sym for sym in WRAPPED]
# blocking / synchronising primitives the scheduler cannot simulate: if the code under test starts
# to use one of them, the concurrent engine gives no verdict (exit 2) instead of a misleading one
UNSUPPORTED_SYNC = ("pthread_cond_", "pthread_once", "pthread_spin_", "sem_wait", "sem_post",
                    "pthread_mutex_timedlock", "pthread_mutex_clocklock", "pthread_rwlock_timed",
                    "pthread_rwlock_clock", "pthread_barrier_", "__tsan_atomic128", "__atomic_wait",
                    "pthread_create")

# binaries: name -> (flavour, [harness sources relative to /verif/sim], [extra flags], [link flags],
#                    [sources compiled WITHOUT the sanitizer flags])
BINARIES = {
    "c07": ("asan", ["props/c07_rawvec_buffer.cpp"], [], [], []),
    "c09": ("asan", ["props/c09_tree.cpp", "seams/new_delete.cpp"], [], [], []),
    "c11": ("asan", ["props/c11_intrusive_signal.cpp", "seams/new_delete.cpp"], [], [], []),
    "c12": ("asan", ["props/c12_parse_stream.cpp", "seams/new_delete.cpp"], [], [], []),
    "c15": ("asan", ["props/c15_roundtrip.cpp", "seams/new_delete.cpp"], [], [], []),
    "c01": ("asan", ["props/c01_total_io.cpp", "seams/new_delete.cpp",
                     "seams/stat_interpose.cpp"], [], ["-ldl"], []),
    "c19s": ("asan", ["props/c19_log_seq.cpp", "seams/new_delete.cpp"], [], [], []),
    "c19c": ("tsan", ["props/c19_log_conc.cpp"], [], C19C_WRAPS, ["seams/fiber_sched.cpp"]),
    "c12c": ("tsan", ["props/c12_parse_conc.cpp"], [], C19C_WRAPS, ["seams/fiber_sched.cpp"]),
}

GEN = {
    "include/fcppt/public_config.hpp": """#ifndef FCPPT_PUBLIC_CONFIG_HPP_INCLUDED
#define FCPPT_PUBLIC_CONFIG_HPP_INCLUDED
#define FCPPT_NARROW_STRING
#endif
""",
    "include/fcppt/version.hpp": """#ifndef FCPPT_VERSION_HPP_INCLUDED
#define FCPPT_VERSION_HPP_INCLUDED
#define FCPPT_VERSION 4000000UL
#endif
""",
    "impl/include/fcppt/impl/private_config.hpp": """#ifndef FCPPT_IMPL_PRIVATE_CONFIG_HPP_INCLUDED
#define FCPPT_IMPL_PRIVATE_CONFIG_HPP_INCLUDED
#define FCPPT_HAVE_GCC_DEMANGLE
#endif
""",
}
for _name, _path in (("", "detail"), ("LOG_", "log/detail"), ("FILESYSTEM_", "filesystem/detail"),
                     ("OPTIONS_", "options/detail")):
    GEN["include/fcppt/%s/symbol.hpp" % _path] = (
        "#ifndef FCPPT_%sDETAIL_SYMBOL_HPP_INCLUDED\n#define FCPPT_%sDETAIL_SYMBOL_HPP_INCLUDED\n"
        "#define FCPPT_%sDETAIL_SYMBOL\n#endif\n" % (_name, _name, _name))


def include_flags():
    incs = [os.path.join(BUILD, "gen/include"), os.path.join(BUILD, "gen/impl/include")]
    for lib in ("core", "log", "filesystem", "parse", "options", "boost", "catch"):
        for sub in ("include", "impl/include"):
            d = os.path.join(REPO, "libs", lib, sub)
            if os.path.isdir(d):
                incs.append(d)
    incs.append(os.path.join(VERIF, "sim"))
    return ["-I" + i for i in incs]


def tree_hash(root, exts=(".cpp", ".hpp", ".h", ".py")):
    h = hashlib.sha256()
    for dp, dn, fn in os.walk(root):
        dn.sort()
        for f in sorted(fn):
            if f.endswith(exts):
                p = os.path.join(dp, f)
                h.update(p.encode())
                with open(p, "rb") as fh:
                    h.update(hashlib.sha256(fh.read()).digest())
    return h.hexdigest()


def run(cmd):
    r = subprocess.run(cmd, stdout=subprocess.PIPE, stderr=subprocess.STDOUT, text=True)
    return r.returncode, r.stdout


def compile_all(jobs):
    """jobs: list of (src, obj, flags)"""
    failed = []
    with concurrent.futures.ThreadPoolExecutor(max_workers=JOBS) as ex:
        futs = {}
        for src, obj, flags in jobs:
            os.makedirs(os.path.dirname(obj), exist_ok=True)
            cmd = [CXX] + flags + ["-c", src, "-o", obj]
            futs[ex.submit(run, cmd)] = (src, cmd)
        for f in concurrent.futures.as_completed(futs):
            rc, out = f.result()
            if rc != 0:
                failed.append((futs[f][0], out))
    return failed


def read(path):
    try:
        with open(path) as f:
            return f.read()
    except OSError:
        return ""


def write(path, s):
    os.makedirs(os.path.dirname(path), exist_ok=True)
    with open(path + ".tmp", "w") as f:
        f.write(s)
    os.replace(path + ".tmp", path)


def main():
    if len(sys.argv) != 3:
        print(__doc__)
        return 2
    flavour, binary = sys.argv[1], sys.argv[2]
    os.makedirs(BUILD, exist_ok=True)
    lock = open(os.path.join(BUILD, ".lock." + flavour), "w")
    fcntl.flock(lock, fcntl.LOCK_EX)
    # generated configuration headers
    for rel, content in GEN.items():
        p = os.path.join(BUILD, "gen", rel)
        if read(p) != content:
            write(p, content)
    flags = COMMON + FLAVOURS[flavour] + include_flags()
    repo_hash = tree_hash(os.path.join(REPO, "libs")) + " " + " ".join(flags) + " " + CXX
    fdir = os.path.join(BUILD, flavour)
    lib = os.path.join(fdir, "libfcppt.a")
    if read(os.path.join(fdir, "lib.stamp")) != repo_hash or not os.path.exists(lib):
        shutil.rmtree(fdir, ignore_errors=True)
        os.makedirs(fdir)
        jobs = []
        for d in LIB_DIRS[flavour]:
            root = os.path.join(REPO, "libs", d)
            for dp, dn, fn in os.walk(root):
                dn.sort()
                for f in sorted(fn):
                    if f.endswith(".cpp"):
                        src = os.path.join(dp, f)
                        obj = os.path.join(fdir, "obj", os.path.relpath(src, os.path.join(REPO, "libs"))) + ".o"
                        jobs.append((src, obj, flags))
        failed = compile_all(jobs)
        if failed:
            for src, out in failed[:3]:
                print("BUILD-ERROR", src)
                print(out[-4000:])
            return 2
        objs = [j[1] for j in jobs]
        if os.path.exists(lib):
            os.remove(lib)
        rc, out = run(["ar", "rcs", lib] + objs)
        if rc != 0:
            print(out)
            return 2
        write(os.path.join(fdir, "lib.stamp"), repo_hash)
    # property binary
    bflav, srcs, extra, link, plain_srcs = BINARIES[binary]
    if binary == "c19c":
        # which synchronisation symbols does the code under test (log library) reference?
        objs = []
        for dp, dn, fn in os.walk(os.path.join(fdir, "obj", "log")):
            objs += [os.path.join(dp, f) for f in fn if f.endswith(".o")]
        rc, out = run(["nm", "-u"] + objs)
        bad = sorted(set(line.split()[-1] for line in out.splitlines()
                         if line.split() and any(line.split()[-1].startswith(u) for u in UNSUPPORTED_SYNC)))
        if not objs:
            print("BUILD-ERROR no objects of the log library found below", os.path.join(fdir, "obj", "log"))
            return 2
        if bad:
            print("BUILD-ERROR the log library uses synchronisation primitives the fiber scheduler cannot "
                  "simulate: %s - no verdict from the concurrent engine" % ", ".join(bad))
            return 2
    assert bflav == flavour, "binary %s belongs to flavour %s" % (binary, bflav)
    h = hashlib.sha256()
    for sfile in srcs + plain_srcs:
        with open(os.path.join(VERIF, "sim", sfile), "rb") as fh:
            h.update(fh.read())
    sim_hash = (repo_hash + " " + tree_hash(os.path.join(VERIF, "sim", "core")) + " " +
                tree_hash(os.path.join(VERIF, "sim", "seams")) + " " + h.hexdigest() + " " +
                " ".join(extra + link))
    exe = os.path.join(fdir, binary)
    if read(exe + ".stamp") != sim_hash or not os.path.exists(exe):
        jobs = []
        for s in srcs:
            jobs.append((os.path.join(VERIF, "sim", s),
                         os.path.join(fdir, "hobj", binary, s) + ".o", flags + extra))
        pflags = COMMON + FLAVOURS["plain"] + include_flags()
        for s in plain_srcs:
            jobs.append((os.path.join(VERIF, "sim", s),
                         os.path.join(fdir, "hobj", binary, s) + ".o", pflags + extra))
        failed = compile_all(jobs)
        if failed:
            for src, out in failed[:3]:
                print("BUILD-ERROR", src)
                print(out[-6000:])
            return 2
        cmd = [CXX] + FLAVOURS[flavour] + ["-pthread", "-o", exe + ".new"] + [j[1] for j in jobs] + [lib] + link
        rc, out = run(cmd)
        if rc != 0:
            print("LINK-ERROR")
            print(out[-6000:])
            return 2
        os.replace(exe + ".new", exe)
        write(exe + ".stamp", sim_hash)
    print(exe)
    return 0


if __name__ == "__main__":
    sys.exit(main())
