#!/usr/bin/env python3
"""Regenerates /verif/MANIFEST.json from tools/props.py (claimed checks) and the fixed
not-applicable list. Run after adding a property to props.py."""
import json
import os
import sys
VERIF = os.path.dirname(os.path.dirname(os.path.abspath(__file__)))
sys.path.insert(0, os.path.join(VERIF, "tools"))
import props

NA = {
 "C02": "Pure function of (grammar, input string): no schedule, clock, fault, interleaving or object history in the claim; the only seam (the input stream) is the subject of C12. Needs a reference PEG interpreter and grammar enumeration, i.e. another technique.",
 "C03": "Pure function of (parser composition, argument vector); no I/O, allocation policy, interleaving or history is part of the claim.",
 "C04": "Equational laws over values and total functions; 'exactly once' concerns one deterministic call, not delivery under faults.",
 "C05": "A statement about value categories inside one deterministic call; the instrumented element type it needs is test instrumentation, not a nondeterminism seam.",
 "C06": "Pure integer functions; exhaustive/boundary enumeration is the fitting technique, there is nothing to schedule or fail.",
 "C08": "Pure index arithmetic over (size, position); exhaustive small-scope enumeration is the fitting technique.",
 "C10": "Value type in std::array storage without allocation, I/O or shared state; its 'histories' are expression trees over pure operators.",
 "C13": "Pure geometry over small integer domains; exhaustive enumeration is the fitting technique.",
 "C14": "Pure arithmetic identities; no state, I/O or schedule.",
 "C16": "Pure functions of their input ranges (single deterministic call, no external party).",
 "C17": "Relations (==, <, hash) over values; no state, fault or schedule.",
 "C18": "Pure iteration over integer/enum domains.",
 "C20": "An engine is a deterministic function of its seed and the property compares two pure computations; no fault, schedule or history (seed_from_chrono is not part of the property).",
}

def main():
    claimed = sorted(props.PROPS)
    bins = []
    for pid in claimed:
        for e in props.PROPS[pid]["engines"]:
            bins.append((e["flavour"], e["bin"]))
    setup = " && ".join("python3 tools/build.py %s %s" % b for b in bins)
    m = {
     "version": 1,
     "setup_cmd": setup,
     "hooks": {
      "guard": "FCPPT_VERIF_SIM",
      "enable": "no source hooks are needed: all seams are template parameters (allocator, element type, reader callbacks), virtual functions of the standard library (streambuf, codecvt facet) or link-time symbols (operator new, --wrap=pthread_mutex_lock, --wrap=__tsan_atomic*, stat interposition); the guard name is reserved and unused",
      "baseline_off_cmd": "cmake --build /repo/_build && ctest --test-dir /repo/_build -j8 --timeout 900",
      "source_commits": [],
      "add_only": True
     },
     "engines": [
      {"name": "fcppt-sim", "path": "sim/ tools/driver.py tools/build.py run.sh",
       "serves_properties": claimed,
       "kind_free_text": "deterministic simulation: seeded plan generator, per-operation fault annotations, fiber scheduler for the concurrent property, reference-model oracles, sanitizer monitors, determinism gate, ddmin shrinker, replay files"}
     ],
     "checks": [],
     "notes": "See DESIGN.md. Properties that are pure functions of their inputs are listed under not_applicable (no technique is substituted). Genuine defects found and repaired are listed in known_findings.json; their minimised replays under replays/fixed/ are re-executed by every run.",
     "not_applicable": [{"property_id": k, "reason": v} for k, v in sorted(NA.items()) if k not in claimed]
    }
    for pid in claimed:
        P = props.PROPS[pid]
        m["checks"].append({
         "property_id": pid,
         "quick_cmd": "./run.sh %s quick" % pid,
         "thorough_cmd": "./run.sh %s thorough" % pid,
         "evidence_file": "evidence/%s.json" % pid,
         "replay_cmd_template": "./run.sh %s --replay {path}" % pid,
         "engine": "fcppt-sim",
         "technique": P["technique"],
         "level_claimed": {"category": "exploration", "text": P["level_text"], "design_ref": "DESIGN.md section 5 " + pid},
         "level_note": P["level_note"],
        })
    with open(os.path.join(VERIF, "MANIFEST.json"), "w") as f:
        json.dump(m, f, indent=1)
        f.write("\n")

main()
