#!/usr/bin/env python3
"""Sensitivity of the checks: applies one planted defect (or a patch file) to a scratch copy of
the repository OUTSIDE /repo and /verif, runs the property's quick check against it and reports
whether (and how fast) a VIOLATION was printed. The scratch copy and its build output are removed
afterwards. Nothing under /verif/replays or /verif/evidence is touched.

usage: sensitivity.py <mutant-id>...        (ids from tools/mutants.py; 'all' for every one)
       sensitivity.py seeded                (every change under /verif/seeded)
       sensitivity.py controls [id...]      (negative controls under /verif/controls: must stay silent)
       sensitivity.py --patch <file> <PROP> (a unified diff relative to the repository root)
       options: --tier quick|thorough  --keep  --with-suite
"""
import json
import os
import re
import shutil
import subprocess
import sys
import tempfile
import time

VERIF = os.path.dirname(os.path.dirname(os.path.abspath(__file__)))
sys.path.insert(0, os.path.join(VERIF, "tools"))
import mutants  # noqa: E402


def prepare_scratch():
    d = tempfile.mkdtemp(prefix="fcppt-mut.")
    subprocess.check_call(["rsync", "-a", "--exclude", "_build", "--exclude", ".git", "/repo/", d + "/repo/"])
    return d


def run_check(scratch, prop, tier, seed=None):
    env = dict(os.environ)
    env["REPO"] = scratch + "/repo"
    env["VERIF_BUILD"] = scratch + "/build"
    env["VERIF_OUT"] = scratch + "/out"
    if seed is not None:
        env["VERIF_SEED"] = str(seed)
    t0 = time.time()
    r = subprocess.run([os.path.join(VERIF, "run.sh"), prop, tier], env=env, stdout=subprocess.PIPE,
                       stderr=subprocess.STDOUT, text=True)
    return r.returncode, r.stdout, time.time() - t0


def apply_mutant(scratch, m):
    p = os.path.join(scratch, "repo", m["file"])
    with open(p) as f:
        s = f.read()
    if m["old"] not in s:
        raise SystemExit("mutant %s: text to replace not found in %s" % (m["id"], m["file"]))
    s = s.replace(m["old"], m["new"], 1)
    with open(p, "w") as f:
        f.write(s)


RESULTS = os.path.join(VERIF, "sensitivity_results.json")


def record(line, m):
    """Keeps the latest result per change in /verif/sensitivity_results.json (rendered into
    DESIGN.md section 11 by tools/sens_report.py)."""
    try:
        with open(RESULTS) as f:
            data = json.load(f)
    except (OSError, ValueError):
        data = {}
    key = line["id"]
    if "patch" in m:
        # seeded/<id>/patch.diff -> <id>
        key = os.path.basename(os.path.dirname(m["patch"])) or key
        line = dict(line, id=key, kind="seeded")
    else:
        line = dict(line, kind="planted", fault=bool(m.get("fault")), file=m["file"])
    for keep in ("note", "withdrawn"):
        if key in data and keep in data[key] and keep not in line:
            line[keep] = data[key][keep]
    data[key] = line
    with open(RESULTS + ".tmp", "w") as f:
        json.dump(data, f, indent=1, sort_keys=True)
        f.write("\n")
    os.replace(RESULTS + ".tmp", RESULTS)


def record_control(line):
    path = os.path.join(VERIF, "controls_results.json")
    try:
        with open(path) as f:
            data = json.load(f)
    except (OSError, ValueError):
        data = {}
    data[line["id"]] = {"prop": line["prop"], "exit": line["exit"], "classes": line["classes"], "wall_s": line["wall_s"],
                        "silent": line["exit"] == 0}
    with open(path + ".tmp", "w") as f:
        json.dump(data, f, indent=1, sort_keys=True)
        f.write("\n")
    os.replace(path + ".tmp", path)


def main():
    args = sys.argv[1:]
    tier = "quick"
    keep = False
    if "--tier" in args:
        i = args.index("--tier")
        tier = args[i + 1]
        del args[i:i + 2]
    if "--keep" in args:
        keep = True
        args.remove("--keep")
    results = []
    if args and args[0] == "seeded":
        # every confirmed independently written change under /verif/seeded
        todo = []
        for sid in sorted(os.listdir(os.path.join(VERIF, "seeded"))):
            mp = os.path.join(VERIF, "seeded", sid, "meta.json")
            if os.path.exists(mp):
                with open(mp) as f:
                    meta = json.load(f)
                todo.append({"id": sid, "prop": meta["property"], "patch": os.path.join(VERIF, "seeded", sid, "patch.diff")})
    elif args and args[0] == "controls":
        # negative controls under /verif/controls: changes under which the property still holds;
        # the check must stay silent (exit 0) on every one of them
        todo = []
        for sid in sorted(os.listdir(os.path.join(VERIF, "controls"))):
            mp = os.path.join(VERIF, "controls", sid, "meta.json")
            if os.path.exists(mp) and (len(args) == 1 or sid in args[1:]):
                with open(mp) as f:
                    meta = json.load(f)
                todo.append({"id": sid, "prop": meta["property"], "control": True,
                             "patch": os.path.join(VERIF, "controls", sid, "patch.diff")})
    elif args and args[0] == "--patch":
        todo = [{"id": os.path.basename(args[1]), "prop": args[2], "patch": os.path.abspath(args[1])}]
    else:
        ids = [m["id"] for m in mutants.MUTANTS] if args == ["all"] else args
        todo = [m for m in mutants.MUTANTS if m["id"] in ids]
    for m in todo:
        scratch = prepare_scratch()
        try:
            if "patch" in m:
                subprocess.check_call(["patch", "-s", "-p1", "-d", scratch + "/repo", "-i", m["patch"]])
            else:
                apply_mutant(scratch, m)
            rc, out, wall = run_check(scratch, m["prop"], tier)
            viol = re.findall(r"^violation class=(\S+) run=(\d+)", out, re.M)
            line = {"id": m["id"], "prop": m["prop"], "exit": rc, "wall_s": round(wall, 1),
                    "classes": sorted(set(v[0] for v in viol)),
                    "first_run": min([int(v[1]) for v in viol]) if viol else None,
                    "expected": m.get("expect", "")}
            results.append(line)
            print(json.dumps(line), flush=True)
            if m.get("control"):
                record_control(line)
                if rc != 0:
                    print(out[-3000:])
                continue
            record(line, m)
            if rc not in (0, 1):
                print(out[-3000:])
        finally:
            if not keep:
                shutil.rmtree(scratch, ignore_errors=True)
            else:
                print("kept", scratch)
    if todo and todo[0].get("control"):
        silent = sum(1 for r in results if r["exit"] == 0)
        print("silent on %d of %d negative controls" % (silent, len(results)))
        return 0 if silent == len(results) else 1
    caught = sum(1 for r in results if r["exit"] == 1)
    print("caught %d of %d" % (caught, len(results)))
    return 0 if caught == len(results) else 1


if __name__ == "__main__":
    sys.exit(main())
