#!/bin/bash
# import_controls.sh <worktree> <PROP> <round-tag>
# Copies the property-preserving changes a sub-agent left in <worktree>/_ctl (change<k>.diff,
# notes.md) to /verif/controls/<PROP>-<tag>-<k>/ as negative controls (checked to apply to /repo).
set -u
wt=$1; prop=$2; tag=$3
for k in 1 2 3; do
  f=$wt/_ctl/change$k.diff
  [ -s "$f" ] || continue
  d=/verif/controls/$prop-$tag-$k
  mkdir -p $d
  cp $f $d/patch.diff
  cp $wt/_ctl/notes.md $d/notes.md 2>/dev/null
  if patch --dry-run -s -p1 -d /repo -i $d/patch.diff >/dev/null 2>&1; then ap=true; else ap=false; fi
  cat > $d/meta.json <<EOT
{
 "id": "$prop-$tag-$k",
 "property": "$prop",
 "kind": "negative control: a change under which the property still holds; the check must stay silent",
 "source": "independent sub-agent, given only the property text and a scratch worktree of /repo; asked for substantial property-preserving changes (433/433 tests pass with each; argument in notes.md, section 'change $k')",
 "applies_to_repo_head": $ap
}
EOT
  echo "$d applies=$ap"
done
