#!/bin/bash
# confirm_seed.sh <seed-id> <worktree> <PROP>
# Confirms an independently written breaking change: the patch applies to /repo's HEAD, the full
# test suite passes with it, the demonstration fails with it and passes without it. Copies
# patch.diff, the demonstration and notes to /verif/seeded/<seed-id>/ and writes confirm.log.
set -u
id=$1; wt=$2; prop=$3
out=/verif/seeded/$id
mkdir -p $out
cd $wt || exit 2
git add -N libs 2>/dev/null; git diff -- libs > $out/patch.diff
cp _mut/demo.cpp _mut/demo_build.txt _mut/notes.md $out/ 2>/dev/null
log=$out/confirm.log
: > $log
echo "== patch applies to /repo HEAD ($(git -C /repo rev-parse --short HEAD))" >> $log
git -C /repo apply --check $out/patch.diff >> $log 2>&1 && echo "applies: yes" >> $log || echo "applies: NO" >> $log
echo "== test suite with the change" >> $log
ninja -C build >> /dev/null 2>&1
ctest --test-dir build -j16 2>&1 | tail -3 >> $log
echo "== demo with the change (expected to fail)" >> $log
( sh _mut/demo_build.txt; echo "exit=$?" ) 2>&1 | tail -5 >> $log
if ! grep -q "_mut/demo\b.*&&\|&& .*_mut/demo" _mut/demo_build.txt; then ( ./_mut/demo; echo "exit=$?" ) 2>&1 | tail -5 >> $log; fi
git apply -R $out/patch.diff
ninja -C build >> /dev/null 2>&1
echo "== demo without the change (expected to pass)" >> $log
( sh _mut/demo_build.txt; echo "exit=$?" ) 2>&1 | tail -5 >> $log
if ! grep -q "_mut/demo\b.*&&\|&& .*_mut/demo" _mut/demo_build.txt; then ( ./_mut/demo; echo "exit=$?" ) 2>&1 | tail -5 >> $log; fi
git apply $out/patch.diff
cat $log
