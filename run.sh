#!/bin/bash
# ./run.sh <ID> quick|thorough      run the simulation check of one property
# ./run.sh <ID> --replay <file>     replay one minimised plan (exit 1 if it still violates)
set -u
cd "$(dirname "$0")"
export LC_ALL=C
exec python3 tools/driver.py "$@"
